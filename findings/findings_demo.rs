//! Demonstration tests for four defects in `src/contract.rs`.
//!
//! Every test drives the real `execute` entry point through a multi-step history
//! (create / approve / match / reverse) and inspects only the observable results:
//! the response messages (who is paid what, and by which transfer mechanism) and the
//! stored orders.

use ats_smart_contract::ask_order::{AskOrderClass, AskOrderStatus, ASKS_V1};
use ats_smart_contract::bid_order::BIDS_V3;
use ats_smart_contract::common::FeeInfo;
use ats_smart_contract::contract::execute;
use ats_smart_contract::contract_info::{set_contract_info, ContractInfoV3};
use ats_smart_contract::error::ContractError;
use ats_smart_contract::msg::ExecuteMsg;
use ats_smart_contract::tests::test_utils::setup_asset_marker;
use cosmwasm_std::testing::{mock_env, mock_info, MockApi, MockStorage, MOCK_CONTRACT_ADDR};
use cosmwasm_std::{
    coin, coins, to_binary, Addr, BankMsg, Binary, Coin, ContractResult, CosmosMsg, Empty,
    OwnedDeps, Response, SystemResult, Uint128,
};
use prost::Message;
use provwasm_mocks::{mock_provenance_dependencies, MockProvenanceQuerier};
use provwasm_std::types::provenance::marker::v1::{
    MarkerType, MsgTransferRequest, QueryMarkerRequest,
};

const ASK_ID: &str = "ab5f5a62-f6fc-46d1-aa84-51ccc51ec367";
const BID_ID: &str = "c13f8888-ca43-4a64-ab1b-1ca8d60aa49b";
const MARKER_QUERY_PATH: &str = "/provenance.marker.v1.Query/Marker";
const MSG_TRANSFER_TYPE_URL: &str = "/provenance.marker.v1.MsgTransferRequest";

type Deps = OwnedDeps<MockStorage, MockApi, MockProvenanceQuerier, Empty>;

// ---------------------------------------------------------------------------------------------
// helpers
// ---------------------------------------------------------------------------------------------

fn contract_info(size_increment: u128, bid_fee_info: Option<FeeInfo>) -> ContractInfoV3 {
    ContractInfoV3 {
        name: "contract_name".into(),
        bind_name: "contract_bind_name".into(),
        base_denom: "base_denom".into(),
        convertible_base_denoms: vec!["con_base_1".into()],
        supported_quote_denoms: vec!["quote_1".into()],
        approvers: vec![Addr::unchecked("approver_1")],
        executors: vec![Addr::unchecked("exec_1")],
        ask_fee_info: None,
        bid_fee_info,
        ask_required_attributes: vec![],
        bid_required_attributes: vec![],
        price_precision: Uint128::new(0),
        size_increment: Uint128::new(size_increment),
    }
}

fn run(deps: &mut Deps, sender: &str, funds: &[Coin], msg: ExecuteMsg) -> Response {
    match try_run(deps, sender, funds, msg.clone()) {
        Ok(response) => response,
        Err(error) => panic!("{:?} by {} refused: {:?}", msg, sender, error),
    }
}

fn try_run(
    deps: &mut Deps,
    sender: &str,
    funds: &[Coin],
    msg: ExecuteMsg,
) -> Result<Response, ContractError> {
    execute(deps.as_mut(), mock_env(), mock_info(sender, funds), msg)
}

/// How a response message moves coins out of the contract.
#[derive(Debug, Clone, PartialEq)]
enum Via {
    /// `BankMsg::Send`, the mechanism for ordinary coins / unrestricted markers.
    Bank,
    /// `MsgTransferRequest`, the mechanism for restricted markers.
    MarkerTransfer,
}

#[derive(Debug, Clone, PartialEq)]
struct Flow {
    via: Via,
    to: String,
    amount: u128,
    denom: String,
}

/// Decodes every message of a response into an outgoing coin flow.
fn flows(response: &Response) -> Vec<Flow> {
    response
        .messages
        .iter()
        .flat_map(|sub_msg| match &sub_msg.msg {
            CosmosMsg::Bank(BankMsg::Send { to_address, amount }) => amount
                .iter()
                .map(|c| Flow {
                    via: Via::Bank,
                    to: to_address.clone(),
                    amount: c.amount.u128(),
                    denom: c.denom.clone(),
                })
                .collect::<Vec<_>>(),
            CosmosMsg::Stargate { type_url, value } if type_url == MSG_TRANSFER_TYPE_URL => {
                let request = MsgTransferRequest::decode(value.as_slice()).unwrap();
                assert_eq!(request.from_address, MOCK_CONTRACT_ADDR);
                let c = request.amount.unwrap();
                vec![Flow {
                    via: Via::MarkerTransfer,
                    to: request.to_address,
                    amount: c.amount.parse().unwrap(),
                    denom: c.denom,
                }]
            }
            other => panic!("unexpected message: {:?}", other),
        })
        .collect()
}

fn total_to(flows: &[Flow], to: &str, denom: &str) -> u128 {
    flows
        .iter()
        .filter(|f| f.to == to && f.denom == denom)
        .map(|f| f.amount)
        .sum()
}

fn total_out(flows: &[Flow], denom: &str) -> u128 {
    flows
        .iter()
        .filter(|f| f.denom == denom)
        .map(|f| f.amount)
        .sum()
}

/// Dependencies whose marker module answers `Query/Marker` PER DENOMINATION (the stock
/// `QueryMarkerRequest::mock_response` returns the same answer whatever the requested id):
/// `restricted` denoms are restricted markers, `unrestricted` denoms are coin markers and any
/// other denom has no marker at all.
fn deps_with_markers(restricted: &[&str], unrestricted: &[&str]) -> Deps {
    let restricted: Vec<String> = restricted.iter().map(|s| s.to_string()).collect();
    let unrestricted: Vec<String> = unrestricted.iter().map(|s| s.to_string()).collect();
    let mut deps = mock_provenance_dependencies();
    deps.querier.registered_custom_queries.insert(
        MARKER_QUERY_PATH.to_string(),
        Box::new(move |data: &Binary| {
            let request = QueryMarkerRequest::decode(data.as_slice()).unwrap();
            let marker_type = if restricted.contains(&request.id) {
                MarkerType::Restricted
            } else if unrestricted.contains(&request.id) {
                MarkerType::Coin
            } else {
                return SystemResult::Ok(ContractResult::Err(format!(
                    "marker not found for {}",
                    request.id
                )));
            };
            let response = setup_asset_marker(
                "tp18vmzryrvwaeykmdtu6cfrz5sau3dhc5c73ms0u".to_string(),
                "tp18vd8fpwxzck93qlwghaj6arh4p7c5n89x8kskz".to_string(),
                request.id,
                marker_type,
            );
            SystemResult::Ok(ContractResult::Ok(to_binary(&response).unwrap()))
        }),
    );
    deps
}

// ---------------------------------------------------------------------------------------------
// F1: execute_match sends `converted_base.denom` with the restriction flag of `ask_order.base`
// ---------------------------------------------------------------------------------------------

/// History: CreateAsk(convertible) -> ApproveAsk -> CreateBid -> ExecuteMatch.
/// Returns the flows of the match response.
fn f1_history(deps: &mut Deps, con_base_restricted: bool, base_restricted: bool) -> Vec<Flow> {
    set_contract_info(&mut deps.storage, &contract_info(10, None)).unwrap();

    // a restricted marker is pulled by the contract, anything else is sent as funds
    let ask_funds = if con_base_restricted {
        vec![]
    } else {
        coins(100, "con_base_1")
    };
    let create_ask = run(
        deps,
        "asker",
        &ask_funds,
        ExecuteMsg::CreateAsk {
            id: ASK_ID.into(),
            base: "con_base_1".into(),
            quote: "quote_1".into(),
            price: "2".into(),
            size: Uint128::new(100),
        },
    );
    // sanity: the per-denom marker answers are in effect
    assert_eq!(create_ask.messages.len(), con_base_restricted as usize);

    let approve_funds = if base_restricted {
        vec![]
    } else {
        coins(100, "base_denom")
    };
    let approve_ask = run(
        deps,
        "approver_1",
        &approve_funds,
        ExecuteMsg::ApproveAsk {
            id: ASK_ID.into(),
            base: "base_denom".into(),
            size: Uint128::new(100),
        },
    );
    assert_eq!(approve_ask.messages.len(), base_restricted as usize);

    run(
        deps,
        "bidder",
        &coins(200, "quote_1"),
        ExecuteMsg::CreateBid {
            id: BID_ID.into(),
            base: "base_denom".into(),
            fee: None,
            price: "2".into(),
            quote: "quote_1".into(),
            quote_size: Uint128::new(200),
            size: Uint128::new(100),
        },
    );

    let matched = run(
        deps,
        "exec_1",
        &[],
        ExecuteMsg::ExecuteMatch {
            ask_id: ASK_ID.into(),
            bid_id: BID_ID.into(),
            price: "2".into(),
            size: Uint128::new(100),
        },
    );
    flows(&matched)
}

#[test]
fn f1_match_transfers_converted_base_with_its_own_restriction() {
    // (a) convertible denom restricted, contract base denom an unrestricted marker
    let mut deps = deps_with_markers(&["con_base_1"], &["base_denom"]);
    let flows_a = f1_history(&mut deps, true, false);
    println!("F1(a) match flows: {:#?}", flows_a);

    // the convertible asset goes to the approver as a restricted-marker transfer
    assert!(
        flows_a.contains(&Flow {
            via: Via::MarkerTransfer,
            to: "approver_1".into(),
            amount: 100,
            denom: "con_base_1".into(),
        }),
        "con_base_1 (restricted) must reach the approver via MsgTransferRequest"
    );
    // the contract base denom is NOT restricted, it must reach the bidder as a bank send
    assert!(
        flows_a.contains(&Flow {
            via: Via::Bank,
            to: "bidder".into(),
            amount: 100,
            denom: "base_denom".into(),
        }),
        "base_denom (unrestricted) must reach the bidder via BankMsg::Send, got {:?}",
        flows_a
            .iter()
            .filter(|f| f.denom == "base_denom")
            .collect::<Vec<_>>()
    );

    // (b) the mirror image: convertible denom unrestricted, contract base denom restricted
    let mut deps = deps_with_markers(&["base_denom"], &["con_base_1"]);
    let flows_b = f1_history(&mut deps, false, true);
    println!("F1(b) match flows: {:#?}", flows_b);

    assert!(
        flows_b.contains(&Flow {
            via: Via::Bank,
            to: "approver_1".into(),
            amount: 100,
            denom: "con_base_1".into(),
        }),
        "con_base_1 (unrestricted) must reach the approver via BankMsg::Send"
    );
    assert!(
        flows_b.contains(&Flow {
            via: Via::MarkerTransfer,
            to: "bidder".into(),
            amount: 100,
            denom: "base_denom".into(),
        }),
        "base_denom (restricted) must reach the bidder via MsgTransferRequest, got {:?}",
        flows_b
            .iter()
            .filter(|f| f.denom == "base_denom")
            .collect::<Vec<_>>()
    );
}

// ---------------------------------------------------------------------------------------------
// F2: partial RejectAsk of an approved convertible ask leaves converted_base.amount stale
// ---------------------------------------------------------------------------------------------

#[test]
fn f2_partial_reject_keeps_converted_base_in_step_with_size() {
    let mut deps = mock_provenance_dependencies();
    set_contract_info(&mut deps.storage, &contract_info(10, None)).unwrap();

    // asker escrows 100 con_base_1
    run(
        &mut deps,
        "asker",
        &coins(100, "con_base_1"),
        ExecuteMsg::CreateAsk {
            id: ASK_ID.into(),
            base: "con_base_1".into(),
            quote: "quote_1".into(),
            price: "2".into(),
            size: Uint128::new(100),
        },
    );
    // approver escrows 100 base_denom
    run(
        &mut deps,
        "approver_1",
        &coins(100, "base_denom"),
        ExecuteMsg::ApproveAsk {
            id: ASK_ID.into(),
            base: "base_denom".into(),
            size: Uint128::new(100),
        },
    );

    // executor rejects 40 of the 100: 40 con_base_1 back to asker, 40 base_denom back to approver
    let rejected = run(
        &mut deps,
        "exec_1",
        &[],
        ExecuteMsg::RejectAsk {
            id: ASK_ID.into(),
            size: Some(Uint128::new(40)),
        },
    );
    let reject_flows = flows(&rejected);
    assert_eq!(total_to(&reject_flows, "asker", "con_base_1"), 40);
    assert_eq!(total_to(&reject_flows, "approver_1", "base_denom"), 40);

    // the contract now holds 60 con_base_1 and 60 base_denom for this order
    let stored = ASKS_V1.load(&deps.storage, ASK_ID.as_bytes()).unwrap();
    println!("F2 stored ask after partial reject: {:?}", stored);
    assert_eq!(stored.size, Uint128::new(60));
    let stored_converted_base = match &stored.class {
        AskOrderClass::Convertible {
            status: AskOrderStatus::Ready { converted_base, .. },
        } => converted_base.clone(),
        other => panic!("unexpected class {:?}", other),
    };

    // owner cancels the remainder: each party must get back exactly what is still escrowed
    let cancelled = run(
        &mut deps,
        "asker",
        &[],
        ExecuteMsg::CancelAsk { id: ASK_ID.into() },
    );
    let cancel_flows = flows(&cancelled);
    println!("F2 cancel flows: {:#?}", cancel_flows);
    assert_eq!(total_to(&cancel_flows, "asker", "con_base_1"), 60);
    assert_eq!(
        total_to(&cancel_flows, "approver_1", "base_denom"),
        60,
        "approver escrowed 100 and already got 40 back; the cancel must return 60"
    );

    // and the stored order tracked the remaining size in between
    assert_eq!(
        stored_converted_base,
        coin(60, "base_denom"),
        "converted_base must track the remaining order size (60) after a partial reject"
    );
}

// ---------------------------------------------------------------------------------------------
// F3: the lot-multiple test is applied to the whole remainder when no size is supplied
// ---------------------------------------------------------------------------------------------

/// History: CreateAsk 20 @2, CreateBid 20 @2 (quote 40), ExecuteMatch 15 @2 (size_increment 10).
/// Leaves 5 on each order.
fn f3_history() -> Deps {
    let mut deps = mock_provenance_dependencies();
    set_contract_info(&mut deps.storage, &contract_info(10, None)).unwrap();

    run(
        &mut deps,
        "asker",
        &coins(20, "base_denom"),
        ExecuteMsg::CreateAsk {
            id: ASK_ID.into(),
            base: "base_denom".into(),
            quote: "quote_1".into(),
            price: "2".into(),
            size: Uint128::new(20),
        },
    );
    run(
        &mut deps,
        "bidder",
        &coins(40, "quote_1"),
        ExecuteMsg::CreateBid {
            id: BID_ID.into(),
            base: "base_denom".into(),
            fee: None,
            price: "2".into(),
            quote: "quote_1".into(),
            quote_size: Uint128::new(40),
            size: Uint128::new(20),
        },
    );
    // the contract accepts a fill that is not a lot multiple
    let matched = run(
        &mut deps,
        "exec_1",
        &[],
        ExecuteMsg::ExecuteMatch {
            ask_id: ASK_ID.into(),
            bid_id: BID_ID.into(),
            price: "2".into(),
            size: Uint128::new(15),
        },
    );
    let match_flows = flows(&matched);
    assert_eq!(total_to(&match_flows, "asker", "quote_1"), 30);
    assert_eq!(total_to(&match_flows, "bidder", "base_denom"), 15);

    assert_eq!(
        ASKS_V1.load(&deps.storage, ASK_ID.as_bytes()).unwrap().size,
        Uint128::new(5)
    );
    assert_eq!(
        BIDS_V3
            .load(&deps.storage, BID_ID.as_bytes())
            .unwrap()
            .get_remaining_base(),
        Uint128::new(5)
    );
    deps
}

#[test]
fn f3_ask_remainder_below_lot_size_can_be_expired() {
    // ExpireAsk of the 5 remaining units
    let mut deps = f3_history();
    let expired = try_run(
        &mut deps,
        "exec_1",
        &[],
        ExecuteMsg::ExpireAsk { id: ASK_ID.into() },
    );
    println!("F3 ask: ExpireAsk -> {:?}", expired);
    let expired = expired.expect("ExpireAsk of the whole remainder must not be refused");
    assert_eq!(total_to(&flows(&expired), "asker", "base_denom"), 5);
    assert!(ASKS_V1.load(&deps.storage, ASK_ID.as_bytes()).is_err());

    // RejectAsk without a size is the same whole-remainder operation
    let mut deps = f3_history();
    let rejected = try_run(
        &mut deps,
        "exec_1",
        &[],
        ExecuteMsg::RejectAsk {
            id: ASK_ID.into(),
            size: None,
        },
    )
    .expect("RejectAsk of the whole remainder must not be refused");
    assert_eq!(total_to(&flows(&rejected), "asker", "base_denom"), 5);
    assert!(ASKS_V1.load(&deps.storage, ASK_ID.as_bytes()).is_err());

    // a SUPPLIED size that is not a lot multiple is still refused
    let mut deps = f3_history();
    match try_run(
        &mut deps,
        "exec_1",
        &[],
        ExecuteMsg::RejectAsk {
            id: ASK_ID.into(),
            size: Some(Uint128::new(3)),
        },
    ) {
        Err(ContractError::InvalidFields { fields }) => assert_eq!(fields, vec!["size"]),
        other => panic!("expected InvalidFields[size], got {:?}", other),
    }
}

#[test]
fn f3_bid_remainder_below_lot_size_can_be_cancelled_or_expired() {
    // CancelBid by the owner: 5 units * price 2 = 10 quote must come back
    let mut deps = f3_history();
    let cancelled = try_run(
        &mut deps,
        "bidder",
        &[],
        ExecuteMsg::CancelBid { id: BID_ID.into() },
    );
    println!("F3 bid: CancelBid -> {:?}", cancelled);
    let cancelled = cancelled.expect("CancelBid of the whole remainder must not be refused");
    assert_eq!(total_to(&flows(&cancelled), "bidder", "quote_1"), 10);
    assert!(BIDS_V3.load(&deps.storage, BID_ID.as_bytes()).is_err());

    // ExpireBid by an executor
    let mut deps = f3_history();
    let expired = try_run(
        &mut deps,
        "exec_1",
        &[],
        ExecuteMsg::ExpireBid { id: BID_ID.into() },
    )
    .expect("ExpireBid of the whole remainder must not be refused");
    assert_eq!(total_to(&flows(&expired), "bidder", "quote_1"), 10);
    assert!(BIDS_V3.load(&deps.storage, BID_ID.as_bytes()).is_err());

    // RejectBid without a size
    let mut deps = f3_history();
    let rejected = try_run(
        &mut deps,
        "exec_1",
        &[],
        ExecuteMsg::RejectBid {
            id: BID_ID.into(),
            size: None,
        },
    )
    .expect("RejectBid of the whole remainder must not be refused");
    assert_eq!(total_to(&flows(&rejected), "bidder", "quote_1"), 10);
    assert!(BIDS_V3.load(&deps.storage, BID_ID.as_bytes()).is_err());

    // a SUPPLIED size that is not a lot multiple is still refused
    let mut deps = f3_history();
    match try_run(
        &mut deps,
        "exec_1",
        &[],
        ExecuteMsg::RejectBid {
            id: BID_ID.into(),
            size: Some(Uint128::new(3)),
        },
    ) {
        Err(ContractError::InvalidFields { fields }) => assert_eq!(fields, vec!["size"]),
        other => panic!("expected InvalidFields[size], got {:?}", other),
    }
}

// ---------------------------------------------------------------------------------------------
// F4: fill at an improved price whose own fee rounds to 0 never refunds the escrowed bid fee
// ---------------------------------------------------------------------------------------------

#[test]
fn f4_improved_price_fill_refunds_unused_bid_fee() {
    let mut deps = mock_provenance_dependencies();
    set_contract_info(
        &mut deps.storage,
        &contract_info(
            10,
            Some(FeeInfo {
                account: Addr::unchecked("bid_fee_account"),
                rate: "0.001".into(),
            }),
        ),
    )
    .unwrap();

    run(
        &mut deps,
        "asker",
        &coins(100, "base_denom"),
        ExecuteMsg::CreateAsk {
            id: ASK_ID.into(),
            base: "base_denom".into(),
            quote: "quote_1".into(),
            price: "4".into(),
            size: Uint128::new(100),
        },
    );
    // bidder escrows quote 1000 + fee 1 (0.001 * 1000)
    run(
        &mut deps,
        "bidder",
        &coins(1001, "quote_1"),
        ExecuteMsg::CreateBid {
            id: BID_ID.into(),
            base: "base_denom".into(),
            fee: Some(coin(1, "quote_1")),
            price: "10".into(),
            quote: "quote_1".into(),
            quote_size: Uint128::new(1000),
            size: Uint128::new(100),
        },
    );

    // complete fill at the (better) ask price: gross 400, fee on 400 at 0.001 rounds to 0
    let matched = run(
        &mut deps,
        "exec_1",
        &[],
        ExecuteMsg::ExecuteMatch {
            ask_id: ASK_ID.into(),
            bid_id: BID_ID.into(),
            price: "4".into(),
            size: Uint128::new(100),
        },
    );
    let match_flows = flows(&matched);
    println!("F4 match flows: {:#?}", match_flows);

    // both orders are finished and gone: nothing can ever move the escrow afterwards
    assert!(ASKS_V1.load(&deps.storage, ASK_ID.as_bytes()).is_err());
    assert!(BIDS_V3.load(&deps.storage, BID_ID.as_bytes()).is_err());

    assert_eq!(total_to(&match_flows, "asker", "quote_1"), 400);
    assert_eq!(total_to(&match_flows, "bidder", "base_denom"), 100);
    let fee_charged = total_to(&match_flows, "bid_fee_account", "quote_1");
    assert_eq!(fee_charged, 0, "fee on 400 at rate 0.001 rounds to 0");

    // the bidder escrowed 1001 quote_1; 400 was spent and no fee was charged,
    // so 600 (price improvement) + 1 (unused fee) must come back
    assert_eq!(
        total_to(&match_flows, "bidder", "quote_1"),
        601,
        "bidder must get the 600 price-improvement refund plus the 1 unit of unused fee"
    );
    // conservation: everything escrowed for the (now removed) bid leaves the contract
    assert_eq!(total_out(&match_flows, "quote_1"), 1001);
}
