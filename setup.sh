#!/bin/bash
# builds the driver and the dependency caches offline (nothing is fetched)
set -e
cd "$(dirname "$0")"
export CARGO_NET_OFFLINE=true
(cd atsa && cargo build --release --offline 2>&1 | tail -2)
mkdir -p .cache evidence/violations
./extract.sh .cache/setup-dev.json dev
./extract.sh .cache/setup-rel.json release
rm -f .cache/setup-dev.json .cache/setup-dev.json.log .cache/setup-rel.json .cache/setup-rel.json.log
echo setup-ok
