//! Small functions with known semantics: the interpreter's self-test corpus (selftest/test_interp.py compares the extracted
//! path summaries with hand-written expectations). Each exercises one MIR idiom the contract analysis relies on.
#![allow(dead_code, clippy::all)]

pub struct S { pub a: u128, pub b: u128 }
pub enum E { A, B { x: u128 }, C(u128, u128) }

// 1. write through &mut in a helper (pointer model)
fn bump(s: &mut S, d: u128) { s.a = s.a + d; }
pub fn t_mut_helper(mut s: S, d: u128) -> u128 { bump(&mut s, d); s.a }

// 2. nested enum match with payload
pub fn t_enum_match(e: E) -> u128 {
    match e { E::A => 0, E::B { x } => x, E::C(p, q) => p + q }
}

// 3. Option: `?` in a helper returning Option, then ok_or + `?` in a Result function
fn half(x: Option<u128>) -> Option<u128> { let v = x?; Some(v / 2) }
pub fn t_try(x: Option<u128>) -> Result<u128, u8> { let h = half(x).ok_or(7u8)?; Ok(h + 1) }

// 4. closure capturing by mutable reference and called twice
pub fn t_closure_mut(a: u128, b: u128) -> u128 {
    let mut acc = 0u128;
    let mut add = |v: u128| { acc = acc + v; };
    add(a); add(b);
    acc
}

// 5. struct update through pattern-bound &mut inside an enum
pub enum W { Plain, Wrapped { inner: S } }
pub fn t_pattern_mut(mut w: W, v: u128) -> W {
    if let W::Wrapped { inner } = &mut w { inner.b = v; }
    w
}

// 6. shadowing and tuple destructuring
pub fn t_shadow(p: (u128, u128)) -> u128 { let (x, y) = p; let x = x * 2; let y = y + x; y }

// 7. bool helper (merged outcomes) used twice: second use must reuse the first decision
fn is_small(x: u128) -> bool { if x < 10 { return true; } if x == 42 { return true; } false }
pub fn t_bool_helper(x: u128) -> u128 { let s = is_small(x); let a = if s { 1 } else { 2 }; let b = if s { 10 } else { 20 }; a + b }

// 8. mem::take / replace on Option fields
pub struct H { pub slot: Option<u128> }
pub fn t_take(mut h: H) -> (Option<u128>, Option<u128>) { let old = h.slot.take(); (old, h.slot) }

// 9. comparison forms that must normalise to the same predicate
pub fn t_cmp_forms(a: u128, b: u128) -> u128 {
    let mut n = 0;
    if a > b { n = n + 1; }
    if b < a { n = n + 10; }
    if !(a <= b) { n = n + 100; }
    n
}

// 10. loop with push (bounded unrolling, per-iteration structure)
pub fn t_loop(v: Vec<u128>) -> Vec<u128> { let mut out = Vec::new(); for x in v { out.push(x + 1); } out }

// 11. early return inside nested match + Option combinators
pub fn t_combinators(x: Option<u128>, d: u128) -> u128 {
    let y = x.map(|v| v + d).unwrap_or(d);
    let z = x.filter(|v| *v > 5).map_or(0, |v| v);
    y + z
}

// 12. narrowing cast must stay visible, widening must not
pub fn t_casts(x: u128, y: u32) -> u128 { (x as u64) as u128 + (y as u128) }

// 13. clone is a value copy: writes to the copy do not affect the original
#[derive(Clone)]
pub struct T2 { pub a: u128 }
pub fn t_clone(s: T2) -> (u128, u128) { let mut c = s.clone(); c.a = 5; (s.a, c.a) }

// 14. match on a tuple of option refs (shape of the fee-refund match)
pub fn t_tuple_match(a: Option<u128>, b: Option<u128>) -> u128 {
    match (&a, b) { (Some(x), Some(y)) => y - *x, (None, Some(y)) => y, (_, _) => 0 }
}

// 15. early return inside if-let
pub fn t_early_return(x: Option<u128>, lim: u128) -> Result<u128, u8> {
    if let Some(v) = x { if v > lim { return Err(1); } }
    Ok(lim)
}

// 16. constructed enum value matched later: constructor known, no fork
pub fn t_known_ctor(v: u128) -> u128 { let e = E::B { x: v }; match e { E::A => 1, E::B { x } => x, E::C(..) => 2 } }

// 17. as_mut: write through Option<&mut T>
pub fn t_as_mut(mut h: H) -> Option<u128> { if let Some(x) = h.slot.as_mut() { *x = *x + 1; } h.slot }

// 18. mem::replace / swap
pub fn t_mem(mut s: S) -> (u128, u128, u128) { let old = std::mem::replace(&mut s.a, 9); std::mem::swap(&mut s.a, &mut s.b); (old, s.a, s.b) }

// 19. hand-written PartialEq is not structural: it must be inlined, also through the default `ne`
pub enum K { P, Q, R }
impl PartialEq for K {
    fn eq(&self, other: &Self) -> bool { matches!((self, other), (K::P, K::P) | (K::Q, K::Q) | (K::R, K::R) | (K::P, K::Q)) }
}
pub fn t_handwritten_eq() -> (bool, bool, bool) { (K::P == K::Q, K::Q == K::P, K::P != K::Q) }

// Vec built in a helper and appended with extend: element order and count must be visible
fn two(a: u128, b: u128) -> Vec<u128> { let mut v = Vec::new(); v.push(a); v.push(b); v }
pub fn t_extend(a: u128, b: u128, c: u128) -> Vec<u128> { let mut out = vec![c]; out.extend(two(a, b)); out }

// str::as_bytes through a generic helper is the identity on the origin term
fn key_of<'k>(id: &'k str) -> &'k [u8] { id.as_bytes() }
pub fn t_as_bytes(id: String) -> (Vec<u8>, Vec<u8>) { (key_of(&id).to_vec(), id.as_bytes().to_vec()) }

// pre-computed booleans combined lazily: the second operand is not a fact when the first decides
pub fn t_lazy_or(x: u128, a: u128, b: u128) -> u128 { let p = x == a; let q = x == b; if !(p || q) { return 0; } 1 }

// for_each / try_for_each run the closure for every element with its effects on the caller's state
pub fn t_for_each(a: u128, b: u128) -> u128 { let mut acc = 0u128; [a, b].iter().for_each(|x| acc = acc + *x); acc }
pub fn t_try_for_each(v: Vec<u128>, lim: u128) -> Result<u128, u8> {
    let mut n = 0u128;
    v.iter().try_for_each(|x| if *x > lim { Err(1u8) } else { n = n + 1; Ok(()) })?;
    Ok(n)
}

// transpose / cloned keep the case split of the underlying Option
pub fn t_transpose(x: Option<u128>, lim: u128) -> Result<Option<u128>, u8> {
    x.as_ref().map(|v| -> Result<u128, u8> { if *v > lim { Err(3u8) } else { Ok(*v + 1) } }).transpose()
}
pub fn t_cloned(h: &H) -> u128 { h.slot.as_ref().cloned().unwrap_or(7) }

// a function item passed as a value to an adaptor and to a helper taking impl Fn
fn apply2(f: impl Fn(u128) -> u128, x: u128) -> u128 { f(f(x)) }
fn inc(x: u128) -> u128 { x + 1 }
pub fn t_fn_item(x: u128, v: Vec<String>) -> (u128, Vec<String>) { (apply2(inc, x), v.iter().map(String::to_owned).collect()) }

// Option values compared with ==: structural
fn kind_of(x: Option<u128>) -> Option<u8> { match x { Some(v) if v > 9 => Some(2), Some(_) => Some(1), None => None } }
pub fn t_option_eq(x: Option<u128>) -> bool { kind_of(x) == Some(2) }

// table-driven validation: adaptors over a known array run the closures element by element; range tests fork like comparisons
pub fn t_table(name: String, base: String, p: u128) -> Vec<&'static str> {
    let mut bad: Vec<&'static str> = vec![];
    let req = [("name", &name), ("base", &base)];
    bad.extend(req.iter().filter(|(_, v)| v.is_empty()).map(|(f, _)| *f));
    if !(0..=18).contains(&p) { bad.push("precision"); }
    bad
}
pub fn t_any_true(v: Vec<u128>) -> bool { !v.iter().any(|_| true) }

// a merged boolean helper leaves a disjunctive fact; later tests of the same options must respect it
fn both_or_neither(a: &Option<u128>, b: &Option<u128>) -> bool { a.is_some() == b.is_some() }
pub fn t_or_fact(a: Option<u128>, b: Option<u128>) -> u128 {
    if !both_or_neither(&a, &b) { return 0; }
    match (a, b) { (Some(x), Some(y)) => x + y, (None, None) => 1, _ => 99 }
}

// provided trait method calling a required one: resolved through the caller's substitution
pub trait Checked { fn problems(&self) -> Vec<u8>; fn check(&self) -> Result<(), u8> { let p = self.problems(); if p.is_empty() { Ok(()) } else { Err(p[0]) } } }
pub struct Req { pub n: u128 }
impl Checked for Req { fn problems(&self) -> Vec<u8> { let mut v = vec![]; if self.n < 1 { v.push(4u8); } v } }
pub fn t_provided(r: Req) -> Result<(), u8> { r.check() }

// normal forms of round 7: membership by any/all with an equality closure, nested subset test, identity map, fold(0,+), len()==0
pub fn t_any_eq(v: Vec<String>, x: String) -> bool { v.iter().any(|e| e == &x) }
pub fn t_all_ne(v: Vec<String>, x: String) -> bool { v.iter().all(|e| e != &x) }
pub fn t_subset(cur: Vec<String>, new: Vec<String>) -> bool { cur.iter().all(|c| new.iter().any(|n| n.as_str() == c.as_str())) }
pub fn t_fold_sum(v: Vec<u128>) -> u128 { v.iter().map(|e| *e).fold(0u128, |a, e| a + e) }
pub fn t_len_zero(v: Vec<u128>) -> bool { v.len() == 0 }
pub fn t_len_pos(v: Vec<u128>) -> bool { v.len() > 0 }
