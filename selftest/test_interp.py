#!/usr/bin/env python3
"""Self-test of the abstract interpreter + normaliser on selftest/interp_cases (functions with known semantics).
Prints each function's path outcomes; compares with the expectations below; exit 1 on mismatch."""
import os, sys, json, subprocess
V = os.path.dirname(os.path.dirname(os.path.abspath(__file__)))
sys.path.insert(0, os.path.join(V, 'rules')); sys.setrecursionlimit(20000)
import interp
from norm import Norm, P, PF
from engine import abbreviate, Poly, poly

def extract():
    out = os.path.join(V, '.cache', 'interp_cases.json'); os.makedirs(os.path.dirname(out), exist_ok=True)
    env = dict(os.environ)
    sysroot = subprocess.run(['rustc', '+nightly', '--print', 'sysroot'], capture_output=True, text=True).stdout.strip()
    env.update({'LD_LIBRARY_PATH': sysroot + '/lib', 'RUSTFLAGS': '-Zmir-opt-level=0 -Awarnings', 'RUSTC_WRAPPER': os.path.join(V, 'atsa/target/release/atsa-driver'),
                'ATSA_CRATE': 'interp_cases', 'ATSA_OUT': out, 'ATSA_NONCE': 'selftest', 'CARGO_TARGET_DIR': os.path.join(V, '.cache/target-cases'), 'CARGO_NET_OFFLINE': 'true'})
    subprocess.run('rm -rf %s/debug/.fingerprint/interp_cases-*' % env['CARGO_TARGET_DIR'], shell=True)
    if os.path.exists(out): os.remove(out)
    r = subprocess.run(['cargo', '+nightly', 'check', '--offline', '--lib'], cwd=os.path.join(V, 'selftest/interp_cases'), env=env, capture_output=True, text=True)
    if not os.path.exists(out): print(r.stderr[-2000:]); raise SystemExit('extraction of interp_cases failed')
    return out

def outcomes(it, prog, name, params):
    r = it.run_root(name, params)
    N = Norm('case')
    outs = []
    for e in r['exits']:
        facts = tuple(abbreviate(PF(N.fact(f))).replace("sym('", 'sym(').replace("')", ')') for f, _, _ in e['facts'])
        ret = e['ret']
        if ret is not None:
            # resolve references in the returned value for printing
            rn = N(ret)
            outs.append((e['kind'], facts, P(rn).replace("sym('", 'sym(').replace("')", ')'), rn))
        else: outs.append((e['kind'], facts, None, None))
    for a in r.get('aborts', []): outs.append(('abort', (), str(a['detail'])[:60], None))
    return outs

def peq(a, b): return poly(a) == poly(b)
S = lambda n: ('sym', n)
def fld(t, n): return ('f', t, n)
I = lambda n: ('int', n)

def main():
    facts = json.load(open(extract()))
    prog = interp.Program(facts); it = interp.Interp(prog)
    fails = []; n = 0
    def check(name, cond, msg):
        nonlocal n; n += 1
        if not cond: fails.append('%s: %s' % (name, msg))
    def run(name, params, show=True):
        o = outcomes(it, prog, name, params)
        if show:
            print('--', name)
            for k, fs, r, _ in o: print('   %-5s %s  =>  %s' % (k, list(fs), r))
        return o
    s, d = S('s'), S('d')
    o = run('t_mut_helper', ['s', 'd']); rets = [x for x in o if x[0] == 'ret']
    check('t_mut_helper', len(rets) == 1 and peq(rets[0][3], ('add', fld(s, 'a'), d)), 'write through &mut in a helper must be visible to the caller: s.a + d')
    o = run('t_enum_match', ['e']); rets = {x[1]: x for x in o if x[0] == 'ret'}
    check('t_enum_match', len(rets) == 3, 'three variants, three paths')
    for fs, x in rets.items():
        if 'sym(e) is A' in fs: check('t_enum_match', x[3] == I(0), 'A => 0')
        if 'sym(e) is B' in fs: check('t_enum_match', x[3] == ('v', S('e'), 'B', 'x'), 'B{x} => x, got %s' % x[2])
        if 'sym(e) is C' in fs: check('t_enum_match', peq(x[3], ('add', ('v', S('e'), 'C', '0'), ('v', S('e'), 'C', '1'))), 'C(p,q) => p+q, got %s' % x[2])
    o = run('t_try', ['x']); oks = [x for x in o if x[0] == 'ok']; errs = [x for x in o if x[0] == 'err']
    check('t_try', len(oks) == 1 and len(errs) == 1, 'one Ok path (x Some) and one Err path (x None); got %d/%d' % (len(oks), len(errs)))
    if oks: check('t_try', 'sym(x) is Some' in oks[0][1] and oks[0][3][2] == 'Ok' and dict(oks[0][3][3])['0'] == ('add', ('div', ('v', S('x'), 'Some', '0'), I(2)), I(1)), 'Ok(x/2 + 1): %s' % oks[0][2])
    if errs: check('t_try', 'sym(x) is None' in errs[0][1] and '7' in errs[0][2], 'Err(7): %s' % errs[0][2])
    o = run('t_closure_mut', ['a', 'b']); rets = [x for x in o if x[0] == 'ret']
    check('t_closure_mut', len(rets) == 1 and peq(rets[0][3], ('add', S('a'), S('b'))), 'closure mutating a captured variable, called twice: a + b; got %s' % (rets[0][2] if rets else None))
    o = run('t_pattern_mut', ['w', 'v']); rets = {x[1]: x for x in o if x[0] == 'ret'}
    for fs, x in rets.items():
        if 'sym(w) is Wrapped' in fs: check('t_pattern_mut', 'with' in x[2] and 'b: sym(v)' in x[2], 'Wrapped: inner.b updated to v; got %s' % x[2])
        else: check('t_pattern_mut', x[3] == S('w'), 'Plain: unchanged; got %s' % x[2])
    check('t_pattern_mut', len(rets) == 2, 'two paths')
    o = run('t_shadow', ['p']); rets = [x for x in o if x[0] == 'ret']
    check('t_shadow', len(rets) == 1 and peq(rets[0][3], ('add', fld(S('p'), '1'), ('mul', fld(S('p'), '0'), I(2)))), 'y + 2x; got %s' % (rets[0][2] if rets else None))
    o = run('t_bool_helper', ['x']); rets = [x for x in o if x[0] == 'ret']
    vals = sorted(repr(poly(x[3])) for x in rets)
    check('t_bool_helper', vals == ['11', '22'], 'a bool helper decision is reused: results must be exactly {11, 22}, got %s' % vals)
    o = run('t_take', ['h']); rets = [x for x in o if x[0] == 'ret']
    check('t_take', len(rets) == 1 and rets[0][3][0] == 'tup' and rets[0][3][1][0] == fld(S('h'), 'slot') and rets[0][3][1][1][0] == 'adt' and rets[0][3][1][1][2] == 'None', 'take(): (old slot, None); got %s' % (rets[0][2] if rets else None))
    o = run('t_cmp_forms', ['a', 'b']); rets = [x for x in o if x[0] == 'ret']
    vals = sorted(repr(poly(x[3])) for x in rets)
    check('t_cmp_forms', vals == ['0', '111'], 'a > b, b < a, !(a <= b) are one predicate: results must be {0, 111}, got %s' % vals)
    o = run('t_loop', ['v']); rets = [x for x in o if x[0] == 'ret']
    lens = sorted(len(x[3][1]) for x in rets if x[3][0] == 'vec')
    check('t_loop', lens == [0, 1, 2, 3] or lens == [0, 1, 2], 'loop unrolled to 0..n iterations with per-iteration pushes, got %s' % lens)
    for x in rets:
        if x[3][0] == 'vec' and len(x[3][1]) >= 2:
            e1 = x[3][1][1]
            check('t_loop', e1[0] == 'add' and 'iternext' in repr(e1) and ', 1)' in repr(e1), 'second pushed element is (element #1 of v) + 1: %s' % P(e1))
    o = run('t_combinators', ['x', 'd']); rets = {x[1]: x for x in o if x[0] == 'ret'}
    check('t_combinators', len(rets) == 3, 'paths: None; Some with v>5; Some with !(v>5): got %d' % len(rets))
    for fs, x in rets.items():
        if 'sym(x) is None' in fs: check('t_combinators', peq(x[3], S('d')), 'None => d + 0; got %s' % x[2])
    o = run('t_casts', ['x', 'y']); rets = [x for x in o if x[0] == 'ret']
    check('t_casts', len(rets) == 1 and 'as u64' in rets[0][2] and 'sym(y) as' not in rets[0][2], 'narrowing cast kept, widening erased: %s' % (rets[0][2] if rets else None))
    o = run('t_clone', ['s']); rets = [x for x in o if x[0] == 'ret']
    check('t_clone', len(rets) == 1 and rets[0][3] == ('tup', (fld(S('s'), 'a'), I(5))), 'clone is a copy: (s.a, 5); got %s' % (rets[0][2] if rets else None))
    o = run('t_tuple_match', ['a', 'b']); rets = {x[1]: x for x in o if x[0] == 'ret'}
    check('t_tuple_match', len(rets) == 4 or len(rets) == 3, 'arms: (Some,Some) (None,Some) (_,None): got %d' % len(rets))
    for fs, x in rets.items():
        if 'sym(a) is None' in fs and 'sym(b) is Some' in fs: check('t_tuple_match', x[3] == ('v', S('b'), 'Some', '0'), '(None, Some(y)) => y; got %s' % x[2])
        if 'sym(a) is Some' in fs and 'sym(b) is Some' in fs: check('t_tuple_match', peq(x[3], ('sub', ('v', S('b'), 'Some', '0'), ('v', S('a'), 'Some', '0'))), '(Some x, Some y) => y - x; got %s' % x[2])
        if 'sym(b) is None' in fs: check('t_tuple_match', x[3] == I(0), '(_, None) => 0; got %s' % x[2])
    o = run('t_early_return', ['x', 'lim']); oks = [x for x in o if x[0] == 'ok']; errs = [x for x in o if x[0] == 'err']
    check('t_early_return', len(errs) == 1 and len(oks) == 2, 'one Err (Some, v > lim), two Ok (None; Some, v <= lim): got %d/%d' % (len(errs), len(oks)))
    o = run('t_known_ctor', ['v']); rets = [x for x in o if x[0] == 'ret']
    check('t_known_ctor', len(rets) == 1 and rets[0][3] == S('v'), 'known constructor: single path returning v; got %s' % [x[2] for x in rets])
    o = run('t_as_mut', ['h']); rets = {x[1]: x for x in o if x[0] == 'ret'}
    for fs, x in rets.items():
        if 'sym(h).slot is Some' in fs: check('t_as_mut', 'with' in x[2] and '+ 1' in x[2], 'write through as_mut must reach h.slot: got %s' % x[2])
        if 'sym(h).slot is None' in fs: check('t_as_mut', x[3] == fld(S('h'), 'slot'), 'None: unchanged; got %s' % x[2])
    check('t_as_mut', len(rets) == 2, 'two paths; got %d' % len(rets))
    o = run('t_mem', ['s']); rets = [x for x in o if x[0] == 'ret']
    check('t_mem', len(rets) == 1 and rets[0][3] == ('tup', (fld(S('s'), 'a'), fld(S('s'), 'b'), I(9))), 'replace then swap: (old a, b, 9); got %s' % (rets[0][2] if rets else None))
    o = run('t_handwritten_eq', []); rets = [x for x in o if x[0] == 'ret']
    check('t_handwritten_eq', len(rets) == 1 and rets[0][3] == ('tup', (('bool', True), ('bool', False), ('bool', False))), 'hand-written eq inlined (P==Q true, Q==P false, P!=Q false); got %s' % [x[2] for x in rets])
    o = run('t_extend', ['a', 'b', 'c']); rets = [x for x in o if x[0] == 'ret']
    check('t_extend', len(rets) == 1 and rets[0][3] == ('vec', (S('c'), S('a'), S('b'))), 'extend appends the helper-built elements in order: [c, a, b]; got %s' % [x[2] for x in rets])
    o = run('t_as_bytes', ['id']); rets = [x for x in o if x[0] == 'ret']
    check('t_as_bytes', len(rets) == 1 and rets[0][3][0] == 'tup' and rets[0][3][1][0] == rets[0][3][1][1], 'str::as_bytes via a helper and String::as_bytes give the same origin term; got %s' % [x[2] for x in rets])
    o = run('t_lazy_or', ['x', 'a', 'b']); rets = [x for x in o if x[0] == 'ret']
    check('t_lazy_or', sorted(P(x[3]) for x in rets) == ['0', '1', '1'], 'three paths: (x==a) -> 1, (x!=a, x==b) -> 1, neither -> 0; got %s' % [(x[1], x[2]) for x in rets])
    o = run('t_for_each', ['a', 'b']); rets = [x for x in o if x[0] == 'ret']
    check('t_for_each', len(rets) == 1 and peq(rets[0][3], ('add', S('a'), S('b'))), 'for_each over a known array runs the closure on the real state: a + b; got %s' % [x[2] for x in rets])
    o = run('t_try_for_each', ['v', 'lim']); oks = [x for x in o if x[0] == 'ok']; errs = [x for x in o if x[0] == 'err']
    check('t_try_for_each', sorted(P(x[3]) for x in oks)[:3] == ['Ok(0)', 'Ok(1)', 'Ok(2)'] or len(oks) == 3, 'try_for_each: 0, 1, 2 completed iterations end Ok(n); got %s' % [x[2] for x in oks])
    check('t_try_for_each', len(errs) >= 1, 'try_for_each: an element above the limit breaks out with Err; got %s' % [x[2] for x in errs])
    o = run('t_transpose', ['x', 'lim']); oks = [x for x in o if x[0] == 'ok']; errs = [x for x in o if x[0] == 'err']
    check('t_transpose', len(oks) == 2 and len(errs) == 1, 'transpose: None -> Ok(None); Some(v<=lim) -> Ok(Some(v+1)); Some(v>lim) -> Err: got %d ok / %d err' % (len(oks), len(errs)))
    check('t_transpose', any('sym(x) is None' in x[1] and x[2] == 'Result::Ok{0: Option::None}' for x in oks) or any('sym(x) is None' in ' '.join(x[1]) for x in oks), 'the None case is a fact on x itself; got %s' % [(x[1], x[2]) for x in oks])
    o = run('t_cloned', ['h']); rets = [x for x in o if x[0] == 'ret']
    check('t_cloned', len(rets) == 2, 'cloned keeps the Some/None split on h.slot; got %s' % [(x[1], x[2]) for x in rets])
    o = run('t_fn_item', ['x', 'v']); rets = [x for x in o if x[0] == 'ret']
    check('t_fn_item', len(rets) == 1 and rets[0][3][0] == 'tup' and peq(rets[0][3][1][0], ('add', S('x'), I(2))), 'a fn item passed as a value is callable (inc(inc(x)) = x + 2) and hashable inside terms; got %s' % [x[2] for x in rets])
    o = run('t_option_eq', ['x']); rets = [x for x in o if x[0] == 'ret']
    check('t_option_eq', sorted(x[2] for x in rets) in (['False', 'False', 'True'], ['False', 'True']), 'Some(2) == Some(2) is True, Some(1) == Some(2) and None == Some(2) are False; got %s' % [(x[1], x[2]) for x in rets])
    o = run('t_table', ['name', 'base', 'p']); rets = [x for x in o if x[0] == 'ret']
    check('t_table', len(rets) in (8, 12) and any(x[2] == '[]' for x in rets) and any('"name", "base", "precision"' in x[2] for x in rets),
          'table-driven validation: one path per combination of the three tests (2 x 2 x 2, the range test may split in two), from [] to all three names; got %d: %s' % (len(rets), sorted(x[2] for x in rets)))
    o = run('t_any_true', ['v']); rets = [x for x in o if x[0] == 'ret']
    check('t_any_true', len(rets) == 1 and 'is_empty' in rets[0][2], '!v.iter().any(|_| true) is v.is_empty(); got %s' % [x[2] for x in rets])
    o = run('t_or_fact', ['a', 'b']); rets = [x for x in o if x[0] == 'ret']
    check('t_or_fact', not any(x[2] == '99' for x in rets) and any(x[2] == '1' for x in rets), 'after both_or_neither(a, b) the mixed arm is unreachable (no path returns 99); got %s' % sorted(x[2] for x in rets))
    o = run('t_provided', ['r']); oks = [x for x in o if x[0] == 'ok']; errs = [x for x in o if x[0] == 'err']
    check('t_provided', len(oks) == 1 and len(errs) == 1 and any('sym(r).n < 1' in ' '.join(x[1]) for x in errs), 'provided method -> required method of the concrete impl: Ok iff n >= 1; got ok %s err %s' % ([x[1] for x in oks], [(x[1], x[2]) for x in errs]))
    # normal forms (rule layer): membership spellings, identity map, fold/sum, len/is_empty
    o = run('t_any_eq', ['v', 'x']); rets = [x for x in o if x[0] == 'ret']
    check('t_any_eq', len(rets) == 1 and rets[0][3] == ('contains', S('v'), S('x')), 'v.iter().any(|e| e == &x) is contains(v, x); got %s' % [x[3] for x in rets])
    o = run('t_all_ne', ['v', 'x']); rets = [x for x in o if x[0] == 'ret']
    check('t_all_ne', len(rets) == 1 and rets[0][3] == ('not', ('contains', S('v'), S('x'))), 'v.iter().all(|e| e != &x) is !contains(v, x); got %s' % [x[3] for x in rets])
    o = run('t_subset', ['cur', 'new']); rets = [x for x in o if x[0] == 'ret']
    ok = len(rets) == 1 and rets[0][3][0] == 'call' and rets[0][3][1].endswith('::all') and rets[0][3][2][1][0] == 'lambda' and rets[0][3][2][1][3][0][1][:2] == ('contains', S('new'))
    check('t_subset', ok, 'cur.all(|c| new.any(|n| n == c)) is all(cur, |c| contains(new, c)); got %s' % [x[3] for x in rets])
    o = run('t_fold_sum', ['v']); rets = [x for x in o if x[0] == 'ret']
    check('t_fold_sum', len(rets) == 1 and rets[0][3][0] == 'call' and rets[0][3][1].endswith('Iterator::sum') and rets[0][3][2] == (('iter', S('v')),), 'map(identity).fold(0, +) is sum(iter(v)); got %s' % [x[3] for x in rets])
    o = run('t_len_zero', ['v']); rets = [x for x in o if x[0] == 'ret']
    check('t_len_zero', len(rets) == 1 and rets[0][3] == ('is_empty', S('v')), 'v.len() == 0 is is_empty(v); got %s' % [x[3] for x in rets])
    o = run('t_len_pos', ['v']); rets = [x for x in o if x[0] == 'ret']
    check('t_len_pos', len(rets) == 1 and rets[0][3] == ('not', ('is_empty', S('v'))), 'v.len() > 0 is !is_empty(v); got %s' % [x[3] for x in rets])
    # engine: equalities implied by order facts (total order): b<a false, m==a, m<b false ==> a==b
    import engine as _e
    class _PV(_e.PathView):
        def __init__(self, facts): self._f = [(f, None, None) for f in facts]; self._impl_eq = None
        facts = property(lambda self: self._f)
    A, B, M_ = ('dec', S('a')), ('dec', S('b')), ('dec', S('m'))
    ie = _PV([('val', ('lt', B, A), False), ('val', _e.EQ(M_, A), True), ('val', ('lt', M_, B), False)]).implied_equalities()
    pairs = set(frozenset(x) for x in ie)
    check('implied_equalities', frozenset((A, B)) in pairs, 'a<=b, m==a, m>=b must imply a==b; got %s' % ie)
    ie = _PV([('val', ('lt', B, A), False), ('val', _e.EQ(M_, A), True)]).implied_equalities()
    check('implied_equalities', not ie, 'a<=b, m==a implies no new equality; got %s' % ie)
    ie = _PV([('val', ('lt', A, B), True), ('val', _e.EQ(M_, A), True), ('val', ('lt', M_, B), False)]).implied_equalities()
    check('implied_equalities', not ie, 'an inconsistent set implies nothing (no model): got %s' % ie)
    print('interpreter self-test: %d checks, %d failures' % (n, len(fails)))
    for f in fails: print('  FAIL', f)
    return 1 if fails else 0

if __name__ == '__main__':
    sys.exit(main())
