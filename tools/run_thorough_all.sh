#!/bin/bash
cd "$(dirname "$0")/.."
./setup.sh
for i in 01 02 03 04 05 06 07 08 09 10 11 12 13 14 15 16 17; do ./check C$i --tier thorough | tail -4; done
