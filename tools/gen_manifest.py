#!/usr/bin/env python3
"""Regenerates /verif/MANIFEST.json from the per-property table below (claimed = a rules/cXX.py module exists and is listed)."""
import json, os
V = os.path.dirname(os.path.dirname(os.path.abspath(__file__)))
props = [json.loads(l) for l in open(os.path.join(V, 'properties.jsonl'))]
CLAIMS = json.load(open(os.path.join(V, 'tools', 'claims.json')))
checks = []; na = []
for p in props:
    pid = p['id']; c = CLAIMS.get(pid)
    if c and c.get('claimed') and os.path.exists(os.path.join(V, 'rules', pid.lower() + '.py')):
        checks.append({
            'property_id': pid,
            'quick_cmd': './check %s --tier quick' % pid,
            'thorough_cmd': './check %s --tier thorough' % pid,
            'evidence_file': 'evidence/%s.json' % pid,
            'replay_cmd_template': 'cat {path}',
            'engine': 'atsa',
            'level_claimed': {'category': 'other', 'text': c['level_text'], 'design_ref': c.get('design_ref', 'DESIGN.md §7 ' + pid)},
            'level_note': c['level_note'],
            'technique': c['technique'],
        })
    else:
        na.append({'property_id': pid, 'reason': (c or {}).get('na_reason', 'check under construction (see DESIGN.md)')})
m = {
    'version': 1,
    'setup_cmd': './setup.sh',
    'hooks': {'guard': 'figuretechnologies_ats_smart_contract_verif',
              'enable': 'no hooks: the analysis reads the ordinary (unmodified) build of /repo through a RUSTC_WRAPPER driver',
              'baseline_off_cmd': 'cd /repo && cargo test --workspace --no-fail-fast --offline',
              'source_commits': [], 'add_only': True},
    'engines': [{'name': 'atsa', 'path': 'atsa/ (rustc_private MIR serializer) + rules/ (path-sensitive abstract interpreter, normaliser, rule engine)',
                 'serves_properties': [c['property_id'] for c in checks],
                 'kind_free_text': 'static analysis: path-sensitive dataflow over pre-borrowck MIR with crate-local inlining; per-property rules over guard facts, effect traces and origin terms; no execution, no solver'}],
    'checks': checks,
    'notes': 'All checks are static (source -> MIR -> abstract paths -> rules). Genuine defects F1-F4 were repaired in /repo by four fix: commits (see known_findings.txt, DESIGN.md §8).',
    'not_applicable': na,
}
json.dump(m, open(os.path.join(V, 'MANIFEST.json'), 'w'), indent=1)
print('claimed', [c['property_id'] for c in checks], 'n/a', [n['property_id'] for n in na])
