#!/bin/bash
cd "$(dirname "$0")/.."
./setup.sh
python3 tools/seed_matrix.py $(ls seeded | grep -E "3$") > matrix_round3.log 2>&1
