#!/usr/bin/env python3
"""All 17 properties' quick-tier rules in ONE process over one extraction (matrix tooling only: the registered checks are `./check Cxx`).
Prints one line `<label> {check: [rules]}` in the format of tools/seed_matrix.py. Env: ATSA_REPO, ATSA_CACHE_DIR, ATSA_TARGET_DIR.
usage: check_all.py <label>"""
import os, sys, importlib, collections, traceback
V = os.path.dirname(os.path.dirname(os.path.abspath(__file__)))
sys.path.insert(0, os.path.join(V, 'rules')); sys.setrecursionlimit(20000)
import runner, engine
label = sys.argv[1]
summ, meta = runner.get_summary('dev', use_cache=True)
det = collections.OrderedDict()
if summ.get('budget_hit'):
    det['*'] = ['path-budget-exhausted']
eng = engine.Engine(summ)
for i in range(1, 18):
    prop = 'C%02d' % i
    n0 = len(eng.violations)
    try:
        importlib.import_module(prop.lower()).run(eng, 'quick')
    except BaseException as e:
        det[prop] = ['CHECK-ERROR ' + repr(e)[:160]]; continue
    rules = sorted(set(v.rule for v in eng.violations[n0:]))
    if rules: det[prop] = rules
print(label, dict(det), flush=True)
