#!/usr/bin/env python3
import sys,os
sys.path.insert(0,'/verif/rules'); sys.setrecursionlimit(20000)
import runner
s,m=runner.get_summary('dev')
print(os.path.join(runner.CACHE,'summ-%s.pkl'%m['hash']))
