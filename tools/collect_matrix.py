#!/usr/bin/env python3
"""Merges matrix run logs (lines `<id> {check: [rules]}` written by tools/seed_matrix.py, possibly from several `vp run` snapshots) into
seeded/matrix.json, seeded/<id>/meta.json (detected_by) and selftest/refactor_matrix.json. Later files override earlier ones.
usage: collect_matrix.py <log> [<log> ...]"""
import sys, os, re, ast, json
V = os.path.dirname(os.path.dirname(os.path.abspath(__file__)))
seeds, refs = {}, {}
for f in sys.argv[1:]:
    for l in open(f):
        m = re.match(r'(\S+) (\{.*\})\s*$', l)
        if not m: continue
        sid = m.group(1)
        try: d = ast.literal_eval(m.group(2))
        except Exception: continue
        (refs if re.match(r'R(C|\d+)-\d+$', sid) else seeds)[sid] = d
sp = os.path.join(V, 'seeded', 'matrix.json'); rp = os.path.join(V, 'selftest', 'refactor_matrix.json')
old = json.load(open(sp)) if os.path.exists(sp) else {}
old.update(seeds); json.dump(old, open(sp, 'w'), indent=1, sort_keys=True)
for sid, d in seeds.items():
    mp = os.path.join(V, 'seeded', sid, 'meta.json')
    if os.path.exists(mp):
        m = json.load(open(mp)); m['detected_by'] = d; json.dump(m, open(mp, 'w'), indent=1)
oldr = json.load(open(rp)) if os.path.exists(rp) else {}
oldr.update(refs); json.dump(oldr, open(rp, 'w'), indent=1, sort_keys=True)
print('seeds merged: %d (total %d); refactorings merged: %d (total %d)' % (len(seeds), len(old), len(refs), len(oldr)))
undet = [k for k, v in old.items() if not v]; alarms = [k for k, v in oldr.items() if v]
print('seeds reported by no check:', undet); print('refactorings with alarms:', alarms)
