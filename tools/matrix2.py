#!/usr/bin/env python3
"""Faster matrix: every item (a seeded change or a refactoring) is analysed by ONE process (tools/check_all.py: one extraction, all 17
rule sets) with a per-worker cache / target directory; J items in parallel. Output lines as tools/seed_matrix.py (merge with collect_matrix.py).
usage: matrix2.py [-j N] [--refactors] ids...   (ids: seeded/<id> or selftest/refactors/<id>.patch)"""
import os, sys, subprocess, shutil, queue, concurrent.futures
V = os.path.dirname(os.path.dirname(os.path.abspath(__file__)))
args = sys.argv[1:]; J = 12; REF = False
while args and args[0].startswith('-'):
    if args[0] == '-j': J = int(args[1]); args = args[2:]
    elif args[0] == '--refactors': REF = True; args = args[1:]
    else: break
R = '/tmp/mx2'; os.makedirs(R, exist_ok=True)
src_td = os.path.join(V, '.cache', 'target-dev')
if not os.path.isdir(src_td): src_td = '/verif/.cache/target-dev'
W = queue.Queue()
for w in range(min(J, len(args))):
    W.put(w); td = '%s/target-%d' % (R, w)
    if not os.path.isdir(td) and os.path.isdir(src_td): shutil.copytree(src_td, td, symlinks=True)
    os.makedirs('%s/cache-%d' % (R, w), exist_ok=True)
def one(sid):
    patch = os.path.join(V, 'selftest', 'refactors', sid + '.patch') if REF else os.path.join(V, 'seeded', sid, 'patch.diff')
    repo = '%s/repo-%s' % (R, sid)
    shutil.rmtree(repo, ignore_errors=True); os.makedirs(repo)
    for f in ('src', 'Cargo.toml', 'Cargo.lock'):
        s = os.path.join('/repo', f)
        (shutil.copytree if os.path.isdir(s) else shutil.copy)(s, os.path.join(repo, f))
    subprocess.run(['git', 'init', '-q'], cwd=repo)
    a = subprocess.run(['git', 'apply', patch], cwd=repo, capture_output=True, text=True)
    if a.returncode != 0: return '%s APPLY-FAILED' % sid
    w = W.get()
    try:
        env = dict(os.environ); env.update({'ATSA_REPO': repo, 'ATSA_TARGET_DIR': '%s/target-%d' % (R, w), 'ATSA_CACHE_DIR': '%s/cache-%d' % (R, w)})
        r = subprocess.run([sys.executable, os.path.join(V, 'tools', 'check_all.py'), sid], env=env, capture_output=True, text=True)
    finally:
        W.put(w)
    shutil.rmtree(repo, ignore_errors=True)
    lines = [l for l in r.stdout.splitlines() if l.startswith(sid + ' ')]
    return lines[-1] if lines else '%s {"*": ["CHECK-ERROR rc=%d %s"]}' % (sid, r.returncode, (r.stdout + r.stderr)[-300:].replace('\n', ' ').replace('"', "'"))
with concurrent.futures.ThreadPoolExecutor(max_workers=J) as ex:
    for fu in concurrent.futures.as_completed([ex.submit(one, a) for a in args]): print(fu.result(), flush=True)
