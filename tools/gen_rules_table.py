#!/usr/bin/env python3
"""Rewrites the table under '### Rules as implemented' in DESIGN.md from evidence/*.json (rule instance counts of the last runs)."""
import json, os, glob
V = os.path.dirname(os.path.dirname(os.path.abspath(__file__)))
rows = []
for f in sorted(glob.glob(os.path.join(V, 'evidence', 'C*.json'))):
    e = json.load(open(f)); c = e['coverage']
    ri = c.get('rule_instances', {})
    rows.append('| %s | %d | %s |' % (e['property_id'], c['obligations'], ', '.join('`%s` %d' % (k, v) for k, v in sorted(ri.items()) if not k.startswith('probe') and k != 'interpreter-selftest')))
s = open(os.path.join(V, 'DESIGN.md')).read()
a = s.index('### Rules as implemented')
b = s.index('| Id | Obligations |', a)
c = s.index('\n\n', b)
s = s[:b] + '| Id | Obligations | Rule classes (instances) |\n|---|---|---|\n' + '\n'.join(rows) + s[c:]
open(os.path.join(V, 'DESIGN.md'), 'w').write(s)
print('rules table rewritten (%d rows)' % len(rows))
