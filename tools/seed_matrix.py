#!/usr/bin/env python3
"""Runs every check against every kept seeded change (and the four reverted fixes) on scratch copies of /repo
(ATSA_REPO), records which checks report a violation. Output: seeded/MATRIX.md, seeded/<id>/meta.json.detected_by."""
import os, sys, json, subprocess, shutil, glob, concurrent.futures, re
V = os.path.dirname(os.path.dirname(os.path.abspath(__file__)))
props = ['C%02d' % i for i in range(1, 18)]
items = []
MODE = 'seeded'
args = sys.argv[1:]
if args and args[0] == '--refactors':
    MODE = 'refactors'; args = args[1:]
    for f in sorted(glob.glob(os.path.join(V, 'selftest', 'refactors', '*.patch'))): items.append((os.path.basename(f)[:-6], f, False))
else:
    for d in sorted(glob.glob(os.path.join(V, 'seeded', '*'))):
        if os.path.isdir(d) and os.path.exists(os.path.join(d, 'patch.diff')): items.append((os.path.basename(d), os.path.join(d, 'patch.diff'), False))
only = args
if only: items = [i for i in items if i[0] in only]
os.makedirs('/tmp/mx', exist_ok=True)
def run_check(args):
    sid, repo, prop = args
    env = dict(os.environ); env['ATSA_REPO'] = repo; env['ATSA_EVIDENCE_DIR'] = '/tmp/mx/ev-' + sid
    r = subprocess.run([os.path.join(V, 'check'), prop], env=env, capture_output=True, text=True)
    rules = sorted(set(re.findall(r'rule ([\w\-]+):', r.stdout)))
    return prop, r.returncode, rules, r.stdout[-400:] if r.returncode != 0 else ''
results = {}
for sid, patch, rev in items:
    repo = '/tmp/mx/' + MODE + '-' + sid
    shutil.rmtree(repo, ignore_errors=True); os.makedirs(repo)
    for f in ('src', 'Cargo.toml', 'Cargo.lock'):
        s = os.path.join('/repo', f)
        (shutil.copytree if os.path.isdir(s) else shutil.copy)(s, os.path.join(repo, f))
    subprocess.run(['git', 'init', '-q'], cwd=repo)
    a = subprocess.run(['git', 'apply'] + (['-R'] if rev else []) + [patch], cwd=repo, capture_output=True, text=True)
    if a.returncode != 0:
        results[sid] = {'error': 'apply failed: ' + a.stderr[:200]}; print(sid, 'APPLY FAILED'); continue
    # first check builds the cache; the rest run in parallel
    first = run_check((sid, repo, props[0]))
    with concurrent.futures.ThreadPoolExecutor(max_workers=8) as ex:
        rest = list(ex.map(run_check, [(sid, repo, p) for p in props[1:]]))
    det = {}
    for prop, rc, rules, tail in [first] + rest:
        if rc == 1 and rules: det[prop] = rules
        elif rc != 0: det[prop] = ['CHECK-ERROR rc=%d %s' % (rc, tail[-200:])]
    results[sid] = det
    print(sid, {k: v for k, v in det.items()}, flush=True)
    shutil.rmtree(repo, ignore_errors=True); shutil.rmtree('/tmp/mx/ev-' + sid, ignore_errors=True)
    mp = os.path.join(V, 'seeded', sid, 'meta.json')
    if os.path.exists(mp):
        m = json.load(open(mp)); m['detected_by'] = det; json.dump(m, open(mp, 'w'), indent=1)
out = os.path.join(V, 'seeded', 'matrix.json') if MODE == 'seeded' else os.path.join(V, 'selftest', 'refactor_matrix.json')
if only and os.path.exists(out):
    old = json.load(open(out)); old.update(results); results = old
json.dump(results, open(out, 'w'), indent=1)
