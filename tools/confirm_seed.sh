#!/bin/bash
# usage: confirm_seed.sh <seed_out_dir> <label(A|B)> <seed_id> <property>
# Confirms in a scratch worktree: patch applies; 178 lib tests pass with it; demo passes without and fails with it.
# On success copies the artefacts to /verif/seeded/<seed_id>/.
set -u
SRC=$1; L=$2; ID=$3; PROPERTY=$4
WT=/tmp/confirm-$ID
export CARGO_NET_OFFLINE=true CARGO_TARGET_DIR=/tmp/confirm-target
rm -rf $WT; git -C /repo worktree prune; git -C /repo worktree add -q $WT HEAD || exit 2
cp $SRC/seed_demo_$L.rs $WT/tests/seed_demo.rs 2>/dev/null || { mkdir -p $WT/tests; cp $SRC/seed_demo_$L.rs $WT/tests/seed_demo.rs; }
cd $WT
R_CLEAN=$(cargo test --offline --test seed_demo 2>&1 | grep -E "^test result" | tail -1)
git apply $SRC/$L.patch || { echo "APPLY-FAILED"; git -C /repo worktree remove --force $WT; exit 3; }
R_LIB=$(cargo test --offline --lib 2>&1 | grep -E "^test result" | tail -1)
R_DEMO=$(cargo test --offline --test seed_demo 2>&1 | grep -E "^test result" | tail -1)
cd /
git -C /repo worktree remove --force $WT
echo "clean-demo: $R_CLEAN"; echo "lib-with-patch: $R_LIB"; echo "demo-with-patch: $R_DEMO"
ok=1
echo "$R_CLEAN" | grep -q "ok\." || ok=0
echo "$R_LIB" | grep -q "ok. 178 passed; 0 failed" || ok=0
echo "$R_DEMO" | grep -q "FAILED" || ok=0
if [ $ok = 1 ]; then
  D=/verif/seeded/$ID; mkdir -p $D
  cp $SRC/$L.patch $D/patch.diff; cp $SRC/seed_demo_$L.rs $D/demo.rs
  python3 - "$D" "$ID" "$PROPERTY" "$R_CLEAN" "$R_LIB" "$R_DEMO" "$SRC" "$L" <<'PY'
import sys,json,re,os
D,ID,PROP,rc,rl,rd,src,L=sys.argv[1:]
notes=open(os.path.join(src,'notes.md')).read() if os.path.exists(os.path.join(src,'notes.md')) else ''
json.dump({'id':ID,'breaks_property':PROP,'source':'independent sub-agent given only the property text and a scratch worktree',
 'needs_to_manifest':'see notes (excerpt below)','notes_excerpt':notes[:6000],
 'confirmed':{'demo_on_unmodified_tree':rc,'lib_tests_with_patch':rl,'demo_with_patch':rd,
  'commands':['cargo test --offline --test seed_demo (unmodified)','git apply patch.diff','cargo test --offline --lib','cargo test --offline --test seed_demo']},
 'detected_by':[]},open(os.path.join(D,'meta.json'),'w'),indent=1)
PY
  echo "CONFIRMED $ID"
else
  echo "NOT-CONFIRMED $ID"
fi
