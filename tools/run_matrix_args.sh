#!/bin/bash
# usage (with `vp run`): tools/run_matrix_args.sh <logname> [seed_matrix.py args...]; /repo must not be modified meanwhile
cd "$(dirname "$0")/.."
L=$1; shift
./setup.sh
python3 tools/seed_matrix.py "$@" > matrix_$L.log 2>&1
