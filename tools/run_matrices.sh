#!/bin/bash
# runs both corpora against all checks from the directory this script lives in (use with `vp run`); /repo must not be modified meanwhile
cd "$(dirname "$0")/.."
./setup.sh
python3 tools/seed_matrix.py --refactors > matrix_refactors.log 2>&1
python3 tools/seed_matrix.py > matrix_seeded.log 2>&1
