#!/bin/bash
# usage: try_patch.sh <patch> [-R] <prop...>   apply patch to /repo, run checks, undo
P=$1; shift; REV=""
if [ "$1" = "-R" ]; then REV="-R"; shift; fi
cd /repo && git apply $REV $P || { echo APPLY-FAILED; exit 2; }
cd /verif
for p in "$@"; do ./check $p > /tmp/try_$p.out 2>&1; echo "$p exit=$? $(grep -c '^VIOLATION' /tmp/try_$p.out) violations; $(grep -m3 'rule ' /tmp/try_$p.out | cut -c1-260)"; done
git -C /repo checkout -- . ; git -C /repo status --short
