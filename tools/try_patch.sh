#!/bin/bash
# usage: try_patch.sh <patch> [-R] <prop...>   applies the patch to a scratch copy of /repo (never /repo itself) and runs the checks there
P=$(realpath "$1"); shift; REV=""
if [ "$1" = "-R" ]; then REV="-R"; shift; fi
D=$(mktemp -d /tmp/tp.XXXXXX)
cp -r /repo/src /repo/Cargo.toml /repo/Cargo.lock $D/ && cd $D && git init -q && git apply $REV "$P" || { echo APPLY-FAILED; rm -rf $D; exit 2; }
cd /verif
for p in "$@"; do ATSA_REPO=$D ATSA_EVIDENCE_DIR=$D/ev ./check $p > $D/try_$p.out 2>&1; rc=$?; nv=$(grep -c '^VIOLATION' $D/try_$p.out); echo "$p exit=$rc $nv violations; $(grep -m3 'rule ' $D/try_$p.out | cut -c1-260)"; if [ $rc != 0 ] && [ "$nv" = 0 ]; then tail -8 $D/try_$p.out; fi; done
rm -rf $D
