#!/usr/bin/env python3
"""Regression pass after a change of the rule layer: for every kept seeded change, re-run ONE check that reported it before (its own
property's check when that one reported it, else the first reporting check) on a scratch copy and confirm it still reports.
usage: recheck_seeds.py [-j N] [ids...]   -> seeded/recheck.json, prints seeds no longer reported by that check"""
import os, sys, json, subprocess, shutil, re, concurrent.futures, queue
V = os.path.dirname(os.path.dirname(os.path.abspath(__file__)))
args = sys.argv[1:]; J = 10
if args and args[0] == '-j': J = int(args[1]); args = args[2:]
mx = json.load(open(os.path.join(V, 'seeded', 'matrix.json')))
items = [(k, v) for k, v in sorted(mx.items()) if (not args or k in args)]
def one(kv):
    sid, det = kv
    own = sid.split('-')[0]
    cands = [p for p, r in det.items() if r and not str(r[0]).startswith('CHECK-ERROR')]
    if not cands: return sid, None, 'no-previous-detection', []
    prop = own if own in cands else sorted(cands)[0]
    patch = os.path.join(V, 'seeded', sid, 'patch.diff')
    repo = '/tmp/rc/' + sid
    shutil.rmtree(repo, ignore_errors=True); os.makedirs(repo)
    for f in ('src', 'Cargo.toml', 'Cargo.lock'):
        s = os.path.join('/repo', f)
        (shutil.copytree if os.path.isdir(s) else shutil.copy)(s, os.path.join(repo, f))
    subprocess.run(['git', 'init', '-q'], cwd=repo)
    rev = sid.startswith('revert-')
    a = subprocess.run(['git', 'apply'] + [patch], cwd=repo, capture_output=True, text=True)
    if a.returncode != 0: return sid, prop, 'apply-failed', []
    w = WORKERS.get()
    try:
        env = dict(os.environ); env['ATSA_REPO'] = repo; env['ATSA_EVIDENCE_DIR'] = repo + '/ev'
        env['ATSA_TARGET_DIR'] = '/tmp/rc/target-%d' % w; env['ATSA_CACHE_DIR'] = '/tmp/rc/cache-%d' % w
        r = subprocess.run([os.path.join(V, 'check'), prop], env=env, capture_output=True, text=True)
    finally:
        WORKERS.put(w)
    rules = sorted(set(re.findall(r'rule ([\w\-]+):', r.stdout)))
    shutil.rmtree(repo, ignore_errors=True)
    st = 'reported' if (r.returncode == 1 and (rules or 'VIOLATION' in r.stdout)) else ('silent' if r.returncode == 0 else 'error rc=%d %s' % (r.returncode, r.stdout[-200:]))
    return sid, prop, st, rules
os.makedirs('/tmp/rc', exist_ok=True)
WORKERS = queue.Queue()
for w in range(J):
    WORKERS.put(w)
    td = '/tmp/rc/target-%d' % w
    src_td = os.path.join(V, '.cache', 'target-dev') if os.path.isdir(os.path.join(V, '.cache', 'target-dev')) else '/verif/.cache/target-dev'
    if not os.path.isdir(td) and os.path.isdir(src_td):
        shutil.copytree(src_td, td, symlinks=True)      # warm dependency build
    os.makedirs('/tmp/rc/cache-%d' % w, exist_ok=True)
out = {}
with concurrent.futures.ThreadPoolExecutor(max_workers=J) as ex:
    futs = [ex.submit(one, it) for it in items]
    for fu in concurrent.futures.as_completed(futs):       # results as they complete: a few seeds (loops in shared helpers) take very long
        sid, prop, st, rules = fu.result()
        out[sid] = {'check': prop, 'status': st, 'rules': rules}
        print(sid, prop, st, rules, flush=True)
        json.dump(out, open(os.path.join(V, 'seeded', 'recheck.json'), 'w'), indent=1, sort_keys=True)
bad = [k for k, v in out.items() if v['status'] != 'reported']
print('rechecked %d; not reported any more: %s' % (len(out), bad))
