#!/bin/bash
# usage: confirm_refactor.sh <out_dir> <N>   confirms in a scratch worktree that R<N>-k.patch applies and the 178 lib tests pass; copies to selftest/refactors
set -u
SRC=$1; N=$2
WT=/tmp/confirm-r$N
export CARGO_NET_OFFLINE=true CARGO_TARGET_DIR=/tmp/confirm-target-r
rm -rf $WT; git -C /repo worktree prune; git -C /repo worktree add -q --detach $WT HEAD || exit 2
cd $WT
for f in $SRC/R$N-*.patch; do
  b=$(basename $f)
  git checkout -q -- src; git apply $f || { echo "$b APPLY-FAILED"; continue; }
  R=$(cargo test --offline --lib 2>&1 | grep -E "^test result" | tail -1)
  if echo "$R" | grep -q "ok. 178 passed; 0 failed"; then cp $f /verif/selftest/refactors/$b; echo "$b CONFIRMED"; else echo "$b NOT-CONFIRMED $R"; fi
done
cp $SRC/notes-R$N.md /verif/selftest/refactors/ 2>/dev/null
cd /; git -C /repo worktree remove --force $WT
