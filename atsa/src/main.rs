// atsa-driver: RUSTC_WRAPPER that (a) passes dependency crates through to the nightly rustc
// (dropping ahash's `--cfg feature="stdsimd"`), and (b) for the crate named by ATSA_CRATE
// (default ats_smart_contract, lib target) serialises the resolved program -- pre-borrowck MIR
// of every body owner with resolved callees, types, field names, constants, ADT definitions --
// into one JSON fact file (ATSA_OUT). No analysis verdict is taken here: the path-sensitive
// interpreter and the rules live in /verif/rules (Python) and read this file.
#![feature(rustc_private)]
#![allow(clippy::all)]

extern crate rustc_abi;
extern crate rustc_driver;
extern crate rustc_hir;
extern crate rustc_interface;
extern crate rustc_middle;
extern crate rustc_session;
extern crate rustc_span;

use rustc_driver::{Callbacks, Compilation};
use rustc_hir::def::DefKind;
use rustc_hir::def_id::{DefId, LocalDefId};
use rustc_middle::mir::{
    AggregateKind, BasicBlockData, Body, Const, Operand, Place, PlaceElem, Rvalue, StatementKind,
    TerminatorKind,
};
use rustc_middle::ty::print::with_no_trimmed_paths;
use rustc_middle::ty::{self, GenericArgsRef, Instance, Ty, TyCtxt, TypingEnv};
use std::fmt::Write as _;
use std::process::Command;

fn esc(s: &str) -> String {
    let mut o = String::with_capacity(s.len() + 2);
    o.push('"');
    for c in s.chars() {
        match c {
            '"' => o.push_str("\\\""),
            '\\' => o.push_str("\\\\"),
            '\n' => o.push_str("\\n"),
            '\r' => o.push_str("\\r"),
            '\t' => o.push_str("\\t"),
            c if (c as u32) < 0x20 => {
                let _ = write!(o, "\\u{:04x}", c as u32);
            }
            c => o.push(c),
        }
    }
    o.push('"');
    o
}

fn jlist(v: &[String]) -> String {
    format!("[{}]", v.join(","))
}

struct Cx<'tcx> {
    tcx: TyCtxt<'tcx>,
}

impl<'tcx> Cx<'tcx> {
    fn ty_str(&self, t: Ty<'tcx>) -> String {
        with_no_trimmed_paths!(format!("{}", t))
    }
    fn path(&self, d: DefId) -> String {
        with_no_trimmed_paths!(self.tcx.def_path_str(d))
    }
    fn span(&self, sp: rustc_span::Span) -> String {
        let sm = self.tcx.sess.source_map();
        let lo = sm.lookup_char_pos(sp.lo());
        let file = match &lo.file.name {
            rustc_span::FileName::Real(r) => match r.local_path() {
                Some(p) => p.display().to_string(),
                None => format!("{:?}", r),
            },
            o => format!("{:?}", o),
        };
        format!("{}:{}", file, lo.line)
    }

    fn field_name(&self, ty: Ty<'tcx>, variant: Option<rustc_abi::VariantIdx>, idx: usize) -> String {
        match ty.kind() {
            ty::Adt(adt, _) => {
                let v = match variant {
                    Some(v) => adt.variant(v),
                    None => {
                        if adt.is_enum() {
                            return idx.to_string();
                        }
                        adt.non_enum_variant()
                    }
                };
                match v.fields.iter().nth(idx) {
                    Some(f) => f.name.to_string(),
                    None => idx.to_string(),
                }
            }
            ty::Closure(def, _) => {
                let caps = self.tcx.closure_captures(def.expect_local());
                match caps.get(idx) {
                    Some(c) => c.to_string(self.tcx),
                    None => idx.to_string(),
                }
            }
            _ => idx.to_string(),
        }
    }

    fn place(&self, body: &Body<'tcx>, p: &Place<'tcx>) -> String {
        let mut projs: Vec<String> = vec![];
        let mut pty = rustc_middle::mir::PlaceTy::from_ty(body.local_decls[p.local].ty);
        for elem in p.projection.iter() {
            match elem {
                PlaceElem::Deref => projs.push("{\"k\":\"deref\"}".into()),
                PlaceElem::Field(f, _) => {
                    let name = self.field_name(pty.ty, pty.variant_index, f.as_usize());
                    projs.push(format!("{{\"k\":\"field\",\"i\":{},\"n\":{}}}", f.as_usize(), esc(&name)));
                }
                PlaceElem::Downcast(sym, vi) => {
                    let name = match sym {
                        Some(s) => s.to_string(),
                        None => match pty.ty.kind() {
                            ty::Adt(adt, _) => adt.variant(vi).name.to_string(),
                            _ => vi.as_usize().to_string(),
                        },
                    };
                    projs.push(format!("{{\"k\":\"downcast\",\"v\":{}}}", esc(&name)));
                }
                PlaceElem::Index(l) => projs.push(format!("{{\"k\":\"index\",\"l\":{}}}", l.as_usize())),
                PlaceElem::ConstantIndex { offset, from_end, .. } => {
                    projs.push(format!("{{\"k\":\"cindex\",\"o\":{},\"e\":{}}}", offset, from_end))
                }
                PlaceElem::Subslice { from, to, from_end } => {
                    projs.push(format!("{{\"k\":\"subslice\",\"f\":{},\"t\":{},\"e\":{}}}", from, to, from_end))
                }
                PlaceElem::OpaqueCast(_) => projs.push("{\"k\":\"opaquecast\"}".into()),
                PlaceElem::UnwrapUnsafeBinder(_) => projs.push("{\"k\":\"unwrapbinder\"}".into()),
            }
            pty = pty.projection_ty(self.tcx, elem);
        }
        format!("{{\"l\":{},\"p\":{}}}", p.local.as_usize(), jlist(&projs))
    }

    fn generic_args(&self, args: GenericArgsRef<'tcx>) -> String {
        let v: Vec<String> = args
            .iter()
            .filter_map(|a| a.as_type().map(|t| esc(&self.ty_str(t))))
            .collect();
        jlist(&v)
    }

    fn fn_ref(&self, owner: LocalDefId, def_id: DefId, args: GenericArgsRef<'tcx>) -> String {
        let tcx = self.tcx;
        let mut s = format!("{{\"def\":{},\"args\":{}", esc(&self.path(def_id)), self.generic_args(args));
        let _ = write!(s, ",\"local\":{}", def_id.is_local());
        let _ = write!(s, ",\"name\":{}", esc(tcx.item_name(def_id).as_str()));
        // trait method?
        if let Some(tr) = tcx.trait_of_assoc(def_id) {
            let _ = write!(s, ",\"trait\":{}", esc(&self.path(tr)));
            if let Some(self_ty) = args.iter().next().and_then(|a| a.as_type()) {
                let _ = write!(s, ",\"self_ty\":{}", esc(&self.ty_str(self_ty)));
            }
        }
        if let Some(imp) = tcx.impl_of_assoc(def_id) {
            let ity = tcx.type_of(imp).instantiate_identity().skip_normalization();
            let _ = write!(s, ",\"impl_for\":{}", esc(&self.ty_str(ity)));
        }
        // resolution
        let env = TypingEnv::post_analysis(tcx, owner.to_def_id());
        let resolved = std::panic::catch_unwind(std::panic::AssertUnwindSafe(|| {
            Instance::try_resolve(tcx, env, def_id, args)
        }));
        if let Ok(Ok(Some(inst))) = resolved {
            let rd = inst.def_id();
            let _ = write!(
                s,
                ",\"res\":{{\"def\":{},\"args\":{},\"local\":{},\"kind\":{}",
                esc(&self.path(rd)),
                self.generic_args(inst.args),
                rd.is_local(),
                esc(&format!("{:?}", std::mem::discriminant(&inst.def)))
            );
            if let Some(imp) = tcx.impl_of_assoc(rd) {
                let ity = tcx.type_of(imp).instantiate_identity().skip_normalization();
                let _ = write!(s, ",\"impl_for\":{}", esc(&self.ty_str(ity)));
                if let Some(trref) = tcx.impl_opt_trait_ref(imp) {
                    let trref = trref.instantiate_identity().skip_normalization();
                    let _ = write!(s, ",\"impl_trait\":{}", esc(&with_no_trimmed_paths!(format!("{}", trref))));
                }
            }
            s.push('}');
        }
        s.push('}');
        s
    }

    fn konst(&self, owner: LocalDefId, c: &rustc_middle::mir::ConstOperand<'tcx>) -> String {
        let ty = c.const_.ty();
        let mut s = format!("{{\"k\":\"const\",\"ty\":{}", esc(&self.ty_str(ty)));
        let disp = with_no_trimmed_paths!(format!("{}", c.const_));
        let _ = write!(s, ",\"txt\":{}", esc(&disp));
        if let ty::FnDef(def_id, args) = ty.kind() {
            let _ = write!(s, ",\"fn\":{}", self.fn_ref(owner, *def_id, args));
        }
        match c.const_ {
            Const::Unevaluated(uv, _) => {
                let _ = write!(s, ",\"uneval\":{}", esc(&self.path(uv.def)));
                let _ = write!(s, ",\"uneval_local\":{}", uv.def.is_local());
                if let Some(p) = uv.promoted {
                    let _ = write!(s, ",\"promoted\":{}", p.as_usize());
                }
            }
            _ => {}
        }
        s.push('}');
        s
    }

    fn operand(&self, owner: LocalDefId, body: &Body<'tcx>, o: &Operand<'tcx>) -> String {
        match o {
            Operand::Copy(p) => format!("{{\"k\":\"copy\",\"pl\":{}}}", self.place(body, p)),
            Operand::Move(p) => format!("{{\"k\":\"move\",\"pl\":{}}}", self.place(body, p)),
            Operand::Constant(c) => self.konst(owner, c),
            #[allow(unreachable_patterns)]
            other => format!("{{\"k\":\"otherop\",\"txt\":{}}}", esc(&format!("{:?}", other))),
        }
    }

    fn variants_of(&self, t: Ty<'tcx>) -> String {
        // discriminant value -> variant name for enums
        match t.kind() {
            ty::Adt(adt, _) if adt.is_enum() => {
                let v: Vec<String> = adt
                    .discriminants(self.tcx)
                    .map(|(vi, d)| format!("[{},{}]", esc(&d.val.to_string()), esc(adt.variant(vi).name.as_str())))
                    .collect();
                jlist(&v)
            }
            _ => "[]".into(),
        }
    }

    fn rvalue(&self, owner: LocalDefId, body: &Body<'tcx>, r: &Rvalue<'tcx>) -> String {
        match r {
            Rvalue::Use(o, _) => format!("{{\"k\":\"use\",\"op\":{}}}", self.operand(owner, body, o)),
            Rvalue::Ref(_, bk, p) => format!(
                "{{\"k\":\"ref\",\"mut\":{},\"pl\":{}}}",
                matches!(bk, rustc_middle::mir::BorrowKind::Mut { .. }),
                self.place(body, p)
            ),
            Rvalue::RawPtr(_, p) => format!("{{\"k\":\"rawptr\",\"pl\":{}}}", self.place(body, p)),
            Rvalue::CopyForDeref(p) => format!("{{\"k\":\"use\",\"op\":{{\"k\":\"copy\",\"pl\":{}}}}}", self.place(body, p)),
            Rvalue::Cast(kind, o, t) => format!(
                "{{\"k\":\"cast\",\"ck\":{},\"op\":{},\"ty\":{}}}",
                esc(&format!("{:?}", kind)),
                self.operand(owner, body, o),
                esc(&self.ty_str(*t))
            ),
            Rvalue::BinaryOp(op, ab) => format!(
                "{{\"k\":\"binop\",\"op\":{},\"a\":{},\"b\":{}}}",
                esc(&format!("{:?}", op)),
                self.operand(owner, body, &ab.0),
                self.operand(owner, body, &ab.1)
            ),
            Rvalue::UnaryOp(op, a) => format!(
                "{{\"k\":\"unop\",\"op\":{},\"a\":{}}}",
                esc(&format!("{:?}", op)),
                self.operand(owner, body, a)
            ),
            Rvalue::Discriminant(p) => {
                let pty = p.ty(&body.local_decls, self.tcx).ty;
                format!(
                    "{{\"k\":\"discr\",\"pl\":{},\"ty\":{},\"variants\":{}}}",
                    self.place(body, p),
                    esc(&self.ty_str(pty)),
                    self.variants_of(pty)
                )
            }
            Rvalue::Aggregate(kind, ops) => {
                let opsj: Vec<String> = ops.iter().map(|o| self.operand(owner, body, o)).collect();
                let head = match &**kind {
                    AggregateKind::Array(t) => format!("\"ak\":\"array\",\"ty\":{}", esc(&self.ty_str(*t))),
                    AggregateKind::Tuple => "\"ak\":\"tuple\"".to_string(),
                    AggregateKind::Adt(def, vi, args, _, active) => {
                        let adt = self.tcx.adt_def(*def);
                        let v = adt.variant(*vi);
                        let fields: Vec<String> = match active {
                            Some(fi) => vec![esc(v.fields.iter().nth(fi.as_usize()).map(|f| f.name.to_string()).unwrap_or_default().as_str())],
                            None => v.fields.iter().map(|f| esc(f.name.as_str())).collect(),
                        };
                        format!(
                            "\"ak\":\"adt\",\"adt\":{},\"variant\":{},\"is_enum\":{},\"fields\":{},\"targs\":{}",
                            esc(&self.path(*def)),
                            esc(v.name.as_str()),
                            adt.is_enum(),
                            jlist(&fields),
                            self.generic_args(args)
                        )
                    }
                    AggregateKind::Closure(def, _) => {
                        let caps = self.tcx.closure_captures(def.expect_local());
                        let names: Vec<String> = caps.iter().map(|c| esc(&c.to_string(self.tcx))).collect();
                        let byref: Vec<String> = caps.iter().map(|c| format!("{}", matches!(c.info.capture_kind, ty::UpvarCapture::ByRef(_)))).collect();
                        format!("\"ak\":\"closure\",\"def\":{},\"caps\":{},\"byref\":{}", esc(&self.path(*def)), jlist(&names), jlist(&byref))
                    }
                    AggregateKind::RawPtr(..) => "\"ak\":\"rawptr\"".to_string(),
                    _ => "\"ak\":\"other\"".to_string(),
                };
                format!("{{\"k\":\"aggregate\",{},\"ops\":{}}}", head, jlist(&opsj))
            }
            Rvalue::Repeat(o, n) => format!(
                "{{\"k\":\"repeat\",\"op\":{},\"n\":{}}}",
                self.operand(owner, body, o),
                esc(&format!("{}", n))
            ),
            other => format!("{{\"k\":\"other\",\"txt\":{}}}", esc(&format!("{:?}", other))),
        }
    }

    fn block(&self, owner: LocalDefId, body: &Body<'tcx>, bb: &BasicBlockData<'tcx>) -> String {
        let mut stmts: Vec<String> = vec![];
        for st in &bb.statements {
            match &st.kind {
                StatementKind::Assign(b) => {
                    let (p, r) = &**b;
                    stmts.push(format!(
                        "{{\"k\":\"assign\",\"pl\":{},\"rv\":{},\"sp\":{},\"exp\":{}}}",
                        self.place(body, p),
                        self.rvalue(owner, body, r),
                        esc(&self.span(st.source_info.span)),
                        st.source_info.span.from_expansion()
                    ));
                }
                StatementKind::SetDiscriminant { place, variant_index } => {
                    stmts.push(format!(
                        "{{\"k\":\"setdiscr\",\"pl\":{},\"v\":{}}}",
                        self.place(body, place),
                        variant_index.as_usize()
                    ));
                }
                StatementKind::Intrinsic(i) => {
                    stmts.push(format!("{{\"k\":\"intrinsic\",\"txt\":{}}}", esc(&format!("{:?}", i))));
                }
                _ => {}
            }
        }
        let term = bb.terminator();
        let sp = esc(&self.span(term.source_info.span));
        let t = match &term.kind {
            TerminatorKind::Goto { target } => format!("{{\"k\":\"goto\",\"t\":{}}}", target.as_usize()),
            TerminatorKind::FalseEdge { real_target, .. } => format!("{{\"k\":\"goto\",\"t\":{}}}", real_target.as_usize()),
            TerminatorKind::FalseUnwind { real_target, .. } => format!("{{\"k\":\"goto\",\"t\":{}}}", real_target.as_usize()),
            TerminatorKind::SwitchInt { discr, targets } => {
                let ts: Vec<String> = targets.iter().map(|(v, b)| format!("[{},{}]", esc(&v.to_string()), b.as_usize())).collect();
                let dty = discr.ty(&body.local_decls, self.tcx);
                format!(
                    "{{\"k\":\"switch\",\"op\":{},\"ty\":{},\"targets\":{},\"otherwise\":{},\"sp\":{}}}",
                    self.operand(owner, body, discr),
                    esc(&self.ty_str(dty)),
                    jlist(&ts),
                    targets.otherwise().as_usize(),
                    sp
                )
            }
            TerminatorKind::Return => "{\"k\":\"return\"}".to_string(),
            TerminatorKind::Unreachable => format!("{{\"k\":\"unreachable\",\"sp\":{}}}", sp),
            TerminatorKind::UnwindResume | TerminatorKind::UnwindTerminate(_) => "{\"k\":\"unwind\"}".to_string(),
            TerminatorKind::Drop { target, .. } => format!("{{\"k\":\"goto\",\"t\":{}}}", target.as_usize()),
            TerminatorKind::Call { func, args, destination, target, fn_span, .. } => {
                let argsj: Vec<String> = args.iter().map(|a| self.operand(owner, body, &a.node)).collect();
                let argtys: Vec<String> = args.iter().map(|a| esc(&self.ty_str(a.node.ty(&body.local_decls, self.tcx)))).collect();
                let dty = destination.ty(&body.local_decls, self.tcx).ty;
                format!(
                    "{{\"k\":\"call\",\"f\":{},\"args\":{},\"argtys\":{},\"dest\":{},\"dest_ty\":{},\"t\":{},\"sp\":{},\"exp\":{}}}",
                    self.operand(owner, body, func),
                    jlist(&argsj),
                    jlist(&argtys),
                    self.place(body, destination),
                    esc(&self.ty_str(dty)),
                    match target { Some(t) => t.as_usize().to_string(), None => "null".into() },
                    esc(&self.span(*fn_span)),
                    fn_span.from_expansion()
                )
            }
            TerminatorKind::Assert { cond, expected, msg, target, .. } => format!(
                "{{\"k\":\"assert\",\"cond\":{},\"expected\":{},\"msg\":{},\"t\":{},\"sp\":{}}}",
                self.operand(owner, body, cond),
                expected,
                esc(&format!("{:?}", msg).chars().take(60).collect::<String>()),
                target.as_usize(),
                sp
            ),
            other => format!("{{\"k\":\"otherterm\",\"txt\":{}}}", esc(&format!("{:?}", other).chars().take(80).collect::<String>())),
        };
        format!("{{\"s\":{},\"t\":{}}}", jlist(&stmts), t)
    }

    fn body(&self, ldid: LocalDefId, body: &Body<'tcx>) -> String {
        let tcx = self.tcx;
        let def_id = ldid.to_def_id();
        let kind = tcx.def_kind(def_id);
        let mut s = format!("{{\"def\":{},\"kind\":{}", esc(&self.path(def_id)), esc(&format!("{:?}", kind)));
        let _ = write!(s, ",\"span\":{}", esc(&self.span(body.span)));
        let _ = write!(s, ",\"arg_count\":{}", body.arg_count);
        // generics (type params by name, including parents)
        let gens = tcx.generics_of(def_id);
        let mut gnames: Vec<String> = vec![];
        let mut g = Some(gens);
        let mut chain = vec![];
        while let Some(gg) = g {
            chain.push(gg);
            g = gg.parent.map(|p| tcx.generics_of(p));
        }
        for gg in chain.iter().rev() {
            for p in &gg.own_params {
                if matches!(p.kind, ty::GenericParamDefKind::Type { .. }) {
                    gnames.push(esc(p.name.as_str()));
                }
            }
        }
        let _ = write!(s, ",\"generics\":{}", jlist(&gnames));
        if matches!(kind, DefKind::Fn | DefKind::AssocFn) {
            let _ = write!(s, ",\"vis_pub\":{}", tcx.visibility(def_id).is_public());
            if let Some(imp) = tcx.impl_of_assoc(def_id) {
                let ity = tcx.type_of(imp).instantiate_identity().skip_normalization();
                let _ = write!(s, ",\"impl_for\":{}", esc(&self.ty_str(ity)));
                let _ = write!(s, ",\"auto_derived\":{}", tcx.is_automatically_derived(imp));
                if let Some(trref) = tcx.impl_opt_trait_ref(imp) {
                    let trref = trref.instantiate_identity().skip_normalization();
                    let _ = write!(s, ",\"impl_trait\":{}", esc(&with_no_trimmed_paths!(format!("{}", trref))));
                }
            }
        }
        let locals: Vec<String> = body
            .local_decls
            .iter()
            .map(|d| format!("{{\"ty\":{},\"mut\":{}}}", esc(&self.ty_str(d.ty)), d.mutability.is_mut()))
            .collect();
        let _ = write!(s, ",\"locals\":{}", jlist(&locals));
        let dbg: Vec<String> = body
            .var_debug_info
            .iter()
            .filter_map(|v| match &v.value {
                rustc_middle::mir::VarDebugInfoContents::Place(p) => {
                    Some(format!("[{},{}]", esc(v.name.as_str()), self.place(body, p)))
                }
                _ => None,
            })
            .collect();
        let _ = write!(s, ",\"debug\":{}", jlist(&dbg));
        let blocks: Vec<String> = body.basic_blocks.iter().map(|bb| self.block(ldid, body, bb)).collect();
        let _ = write!(s, ",\"blocks\":{}", jlist(&blocks));
        s.push('}');
        s
    }

    fn adts(&self) -> String {
        let tcx = self.tcx;
        let mut out: Vec<String> = vec![];
        for id in tcx.hir_free_items() {
            let def_id = id.owner_id.to_def_id();
            let kind = tcx.def_kind(def_id);
            if !matches!(kind, DefKind::Struct | DefKind::Enum) {
                continue;
            }
            let adt = tcx.adt_def(def_id);
            let sm = tcx.sess.source_map();
            let attrs: Vec<String> = tcx
                .hir_attrs(id.hir_id())
                .iter()
                .filter(|a| matches!(a, rustc_hir::Attribute::Unparsed(_)))
                .filter_map(|a| sm.span_to_snippet(a.span()).ok())
                .map(|t| esc(&t))
                .collect();
            let mut vs: Vec<String> = vec![];
            for v in adt.variants() {
                let mut fs: Vec<String> = vec![];
                for f in v.fields.iter() {
                    let fty = tcx.type_of(f.did).instantiate_identity().skip_normalization();
                    let fattrs: Vec<String> = match f.did.as_local() {
                        Some(l) => tcx
                            .hir_attrs(tcx.local_def_id_to_hir_id(l))
                            .iter()
                            .filter(|a| matches!(a, rustc_hir::Attribute::Unparsed(_)))
                .filter_map(|a| sm.span_to_snippet(a.span()).ok())
                            .map(|t| esc(&t))
                            .collect(),
                        None => vec![],
                    };
                    fs.push(format!(
                        "{{\"name\":{},\"ty\":{},\"attrs\":{}}}",
                        esc(f.name.as_str()),
                        esc(&self.ty_str(fty)),
                        jlist(&fattrs)
                    ));
                }
                vs.push(format!("{{\"name\":{},\"fields\":{}}}", esc(v.name.as_str()), jlist(&fs)));
            }
            out.push(format!(
                "{{\"def\":{},\"is_enum\":{},\"attrs\":{},\"variants\":{},\"span\":{}}}",
                esc(&self.path(def_id)),
                adt.is_enum(),
                jlist(&attrs),
                jlist(&vs),
                esc(&self.span(tcx.def_span(def_id)))
            ));
        }
        jlist(&out)
    }

    fn misc(&self) -> String {
        // crate-wide inventories: statics, unsafe, impl Drop
        let tcx = self.tcx;
        let mut statics: Vec<String> = vec![];
        let mut drops: Vec<String> = vec![];
        let mut fnsigs: Vec<String> = vec![];
        for id in tcx.hir_free_items() {
            let def_id = id.owner_id.to_def_id();
            match tcx.def_kind(def_id) {
                DefKind::Static { mutability, .. } => {
                    let t = tcx.type_of(def_id).instantiate_identity().skip_normalization();
                    statics.push(format!(
                        "{{\"def\":{},\"mut\":{},\"ty\":{}}}",
                        esc(&self.path(def_id)),
                        mutability.is_mut(),
                        esc(&self.ty_str(t))
                    ));
                }
                DefKind::Impl { of_trait: true } => {
                    if let Some(tr) = tcx.impl_opt_trait_ref(def_id) {
                        let tr = tr.instantiate_identity().skip_normalization();
                        if Some(tr.def_id) == tcx.lang_items().drop_trait() {
                            drops.push(esc(&with_no_trimmed_paths!(format!("{}", tr))));
                        }
                    }
                }
                DefKind::Fn => {
                    let sig = tcx.fn_sig(def_id).instantiate_identity().skip_normalization().skip_binder();
                    let ins: Vec<String> = sig.inputs().iter().map(|t| esc(&self.ty_str(*t))).collect();
                    fnsigs.push(format!(
                        "{{\"def\":{},\"inputs\":{},\"output\":{},\"unsafe\":{},\"pub\":{},\"span\":{}}}",
                        esc(&self.path(def_id)),
                        jlist(&ins),
                        esc(&self.ty_str(sig.output())),
                        !sig.safety().is_safe(),
                        tcx.visibility(def_id).is_public(),
                        esc(&self.span(tcx.def_span(def_id)))
                    ));
                }
                _ => {}
            }
        }
        format!(
            "{{\"statics\":{},\"drop_impls\":{},\"fn_sigs\":{}}}",
            jlist(&statics),
            jlist(&drops),
            jlist(&fnsigs)
        )
    }
}

struct Dump {
    out: String,
    nonce: String,
}

impl Callbacks for Dump {
    fn after_expansion<'tcx>(&mut self, _c: &rustc_interface::interface::Compiler, tcx: TyCtxt<'tcx>) -> Compilation {
        let cx = Cx { tcx };
        // Clone all pre-borrowck bodies first: later queries may steal mir_built.
        let owners: Vec<LocalDefId> = tcx.hir_body_owners().collect();
        let mut bodies: Vec<(LocalDefId, Body<'tcx>)> = vec![];
        for ldid in owners {
            let kind = tcx.def_kind(ldid.to_def_id());
            if !matches!(
                kind,
                DefKind::Fn | DefKind::AssocFn | DefKind::Closure | DefKind::Const { .. } | DefKind::AssocConst { .. } | DefKind::Static { .. }
            ) {
                continue;
            }
            let b = tcx.mir_built(ldid).borrow().clone();
            bodies.push((ldid, b));
        }
        let mut unsafe_blocks = 0usize;
        for (_, b) in &bodies {
            for scope in b.source_scopes.iter() {
                if let rustc_middle::mir::ClearCrossCrate::Set(d) = &scope.local_data {
                    let _ = d;
                }
            }
            let _ = &mut unsafe_blocks;
        }
        let bj: Vec<String> = bodies.iter().map(|(l, b)| cx.body(*l, b)).collect();
        let mut s = String::new();
        let _ = write!(
            s,
            "{{\"nonce\":{},\"crate\":{},\"bodies\":{},\"adts\":{},\"misc\":{}}}",
            esc(&self.nonce),
            esc(tcx.crate_name(rustc_span::def_id::LOCAL_CRATE).as_str()),
            jlist(&bj),
            cx.adts(),
            cx.misc()
        );
        std::fs::write(&self.out, s).expect("atsa: cannot write fact file");
        Compilation::Continue
    }
}

fn main() {
    let argv: Vec<String> = std::env::args().collect();
    // RUSTC_WRAPPER protocol: argv[1] = path of rustc, argv[2..] = its arguments
    if argv.len() < 2 {
        eprintln!("atsa-driver: expected to be run as RUSTC_WRAPPER");
        std::process::exit(2);
    }
    let rustc = argv[1].clone();
    let rest: Vec<String> = argv[2..].to_vec();
    let target_crate = std::env::var("ATSA_CRATE").unwrap_or_else(|_| "ats_smart_contract".into());
    let mut is_target = false;
    let mut i = 0;
    while i + 1 < rest.len() {
        if rest[i] == "--crate-name" && rest[i + 1] == target_crate {
            is_target = true;
        }
        i += 1;
    }
    let is_test = rest.iter().any(|a| a == "--test");
    let is_build_script = rest.iter().any(|a| a.contains("build_script_build")) ;
    let out = std::env::var("ATSA_OUT").ok();
    if is_target && !is_test && !is_build_script && out.is_some() {
        let mut args: Vec<String> = vec![rustc.clone()];
        args.extend(rest.iter().cloned());
        let mut cb = Dump { out: out.unwrap(), nonce: std::env::var("ATSA_NONCE").unwrap_or_default() };
        rustc_driver::run_compiler(&args, &mut cb);
        return;
    }
    // pass-through, dropping ahash's nightly-only cfg (`--cfg feature="stdsimd"`)
    let mut filtered: Vec<String> = vec![];
    let mut j = 0;
    while j < rest.len() {
        if rest[j] == "--cfg" && j + 1 < rest.len() && rest[j + 1] == "feature=\"stdsimd\"" {
            j += 2;
            continue;
        }
        filtered.push(rest[j].clone());
        j += 1;
    }
    let st = Command::new(&rustc).args(&filtered).status().expect("atsa-driver: cannot run rustc");
    std::process::exit(st.code().unwrap_or(1));
}
