"""C12 Configuration changes cannot move the terms under open orders (R-guard freeze with side agreement, R-write field-wise update, frozen market parameters)."""
from engine import *
from refusal import *
PROP = 'C12'
V_ = 'ModifyContract'
MUTABLE = {'approvers', 'executors', 'ask_fee_info', 'bid_fee_info', 'ask_required_attributes', 'bid_required_attributes'}
MARKET = ['name', 'bind_name', 'base_denom', 'convertible_base_denoms', 'supported_quote_denoms', 'price_precision', 'size_increment']

def validating_collect(t, listterm):
    """t == collect(map(iter(listterm), |x| addr_validate(x))) -- the iterator form of the validation loop (a Result<Vec<Addr>>)"""
    if t[0] != 'collect' or t[1][0] != 'call' or not t[1][1].endswith('::map'): return False
    args = t[1][2]
    if len(args) != 2 or args[0] != ('iter', listterm) or args[1][0] != 'lambda': return False
    lam = args[1]
    if len(lam[3]) != 1: return False
    facts, ret = lam[3][0]
    return not facts and ret[0] == 'rcall' and ret[1] == 'addr_validate' and len(ret[2]) == 1 and ret[2][0][0] == 'bound'

def validated_list(listterm, got):
    """got == [ok(addr_validate(e0)), ok(addr_validate(e1)) ...] for the iterated elements of listterm, in order;
    or the Ok payload of collect(map(iter(listterm), addr_validate))"""
    if got[0] == 'v' and got[2] == 'Ok' and validating_collect(got[1], listterm): return True
    if got[0] != 'vec': return False
    for k, x in enumerate(got[1]):
        elem = V(('iternext', ('iter', listterm), k), 'Some')
        if x != ('ok', ('rcall', 'addr_validate', (elem,))): return False
    return True

def fee_value(p, acct, rate):
    """expected new fee info for a supplied (account, rate) pair on this path"""
    both_empty = p.str_empty(acct) is not None and p.str_empty(rate) is not None
    if both_empty: return ('adt', 'std::option::Option', 'None', ())
    return ('adt', 'std::option::Option', 'Some', (('0', ('adt', 'common::FeeInfo', 'FeeInfo', (('account', ('ok', ('rcall', 'addr_validate', (acct,)))), ('rate', rate)))),))


def run(eng, tier):
    oks = eng.paths('execute', 'ok', V_)
    eng.ob(len(oks) > 0, PROP, 'floor-ok-path', V_, 'no successful configuration change path (fail closed)')
    cfg_fields = None
    from wire import role_type
    CFG_T = role_type(eng, 'contract_info')      # the configuration record is whatever type is stored under "contract_info"
    for a in eng.s['adts']:
        if a['def'] == CFG_T: cfg_fields = [f['name'] for f in a['variants'][0]['fields']]
    eng.ob(cfg_fields is not None and all(m in cfg_fields for m in MARKET) and all(m in cfg_fields for m in MUTABLE), PROP, 'anchor', 'configuration-record', 'configuration record fields not found as expected: %s' % cfg_fields)
    for f_ in (cfg_fields or []):
        eng.ob(f_ in MARKET or f_ in MUTABLE, PROP, 'field-classified', f_, 'configuration field %s is neither a market parameter nor a changeable field in the spec (new field?)' % f_)
    seen = collections.Counter()
    for p in oks:
        saves = [w for w in p.writes if w['ns'] == 'contract_info']
        eng.ob(len(saves) == 1 and len(p.writes) == 1 and saves[0]['op'] == 'save', PROP, 'one-write', V_,
               'an accepted ModifyContract must write the configuration exactly once and nothing else; found %s' % [(w['op'], w['ns']) for w in p.writes], where=p, detail=p.describe(14))
        if len(saves) != 1: continue
        w = saves[0]; sp = w['fpos']
        ups = upd_paths(w['val'], CFG)
        eng.ob(ups is not None, PROP, 'record', 'derived', 'the saved configuration is not the stored one with fields updated', where=w['site'])
        if ups is None: continue
        d = {}
        for pth, x in ups:
            top = pth[0][1]
            d.setdefault(top, []).append((pth, x))
        for fld in d:
            eng.ob(fld in MUTABLE, PROP, 'market-frozen', fld, 'ModifyContract rewrites the market parameter / unknown field %s' % fld, where=w['site'])
        newv = lambda fld: nget(w['val'], (('f', fld),))
        ask_open = p.holds(('storage_is_empty', 'ask', 0), False) is not None
        bid_open = p.holds(('storage_is_empty', 'bid', 0), False) is not None
        ask_empty = p.holds(('storage_is_empty', 'ask', 0), True) is not None
        bid_empty = p.holds(('storage_is_empty', 'bid', 0), True) is not None
        eng.ob((ask_open != ask_empty) and (bid_open != bid_empty), PROP, 'guard', 'book-emptiness-decided', 'the change is accepted without testing whether each side of the book is empty', where=p, detail=p.describe(20))
        g = p.holds(CONTAINS(F(CFG, 'executors'), SENDER), True)
        eng.ob(g is not None and g < sp, PROP, 'guard', 'executor', 'configuration saved without the executor fact', where=p, detail=p.describe(12))
        # lists
        for fld in ('approvers', 'executors'):
            mv = M(V_, fld); st = p.variant_of(mv)
            if st == 'Some':
                seen[fld] += 1
                eng.ob(validated_list(SOMEV(mv), newv(fld)), PROP, 'installed', fld, 'supplied %s are not installed exactly (each element address-validated, in order): %s' % (fld, K(newv(fld))[:200]), where=w['site'], detail=p.describe(14),
                       sample={'rule': 'installed', 'field': fld, 'value': K(newv(fld))[:160]})
                eng.ob(p.holds(ISEMPTY(SOMEV(mv)), False) is not None, PROP, 'guard', fld + ':non-empty', 'an empty %s list is not refused' % fld)
            else:
                eng.ob(st == 'None' and newv(fld) == F(CFG, fld), PROP, 'omitted-kept', fld, 'omitted field %s does not keep its value (presence: %s)' % (fld, st), where=w['site'])
        for side in ('ask', 'bid'):
            rate = M(V_, side + '_fee_rate'); acct = M(V_, side + '_fee_account'); fld = side + '_fee_info'
            rs, as_ = p.variant_of(rate), p.variant_of(acct)
            eng.ob(rs == as_ and rs in ('Some', 'None'), PROP, 'guard', side + ':fee-pair', 'a half-supplied %s fee pair is accepted (rate %s, account %s)' % (side, rs, as_), where=p, detail=p.describe(12))
            open_ = ask_open if side == 'ask' else bid_open
            if rs == 'Some' and as_ == 'Some':
                seen[fld] += 1
                want = fee_value(p, SOMEV(acct), SOMEV(rate))
                eng.ob(canon(newv(fld)) == canon(want), PROP, 'installed', fld, 'supplied %s fee is not installed exactly: got %s want %s' % (side, K(newv(fld))[:160], K(want)[:160]), where=w['site'], detail=p.describe(14))
                if want[2] == 'Some':
                    eng.ob(p.pos(('is', ('rcall', 'from_str', (SOMEV(rate),)), 'Ok')) is not None, PROP, 'guard', side + ':rate-parses', 'a %s fee rate is installed without being parsed' % side)
                if open_:
                    cur = F(CFG, fld)
                    ok = p.is_variant(cur, 'Some') is not None and p.holds(EQ(DEC(F(SOMEV(cur), 'rate')), DEC(SOMEV(rate))), True) is not None
                    eng.ob(ok, PROP, 'freeze', side + ':fee-rate', 'the %s fee rate is written while %ss are open on a path that does not establish current fee present and current rate == new rate as numbers' % (side, side),
                           where=w['site'], detail=p.describe(24), sample={'rule': 'freeze', 'side': side, 'what': 'fee rate'})
            else:
                eng.ob(newv(fld) == F(CFG, fld), PROP, 'omitted-kept', fld, 'omitted %s fee does not keep its value' % side, where=w['site'])
            ra = M(V_, side + '_required_attributes'); fld2 = side + '_required_attributes'
            st = p.variant_of(ra)
            if st == 'Some':
                seen[fld2] += 1
                eng.ob(newv(fld2) == SOMEV(ra), PROP, 'installed', fld2, 'supplied %s are not installed exactly' % fld2, where=w['site'])
                eng.ob(not open_ and (ask_empty if side == 'ask' else bid_empty), PROP, 'freeze', side + ':required-attributes', '%s required attributes are written while %ss are open' % (side, side), where=w['site'], detail=p.describe(16),
                       sample={'rule': 'freeze', 'side': side, 'what': 'required attributes'})
            else:
                eng.ob(st == 'None' and newv(fld2) == F(CFG, fld2), PROP, 'omitted-kept', fld2, 'omitted %s do not keep their value' % fld2, where=w['site'])
        # approver superset rule while any order is open
        if p.variant_of(M(V_, 'approvers')) == 'Some' and (ask_open or bid_open):
            ok = False
            for f, _, _ in p.facts:
                if f[0] == 'val' and f[2] is True and f[1][0] == 'is_subset':
                    cur, new = f[1][1], f[1][2]
                    okc = cur == ('collect', ('iter', F(CFG, 'approvers'))) or (cur[0] == 'collect' and cur[1][0] == 'call' and cur[1][2][0] == ('iter', F(CFG, 'approvers')))
                    okn = new == ('collect', ('iter', SOMEV(M(V_, 'approvers'))))
                    if okc and okn: ok = True
                # equivalent form: every current approver is contained in the new list
                if f[0] == 'val' and f[2] is True and f[1][0] == 'call' and f[1][1].endswith('::all') and len(f[1][2]) == 2 and f[1][2][0] == ('iter', F(CFG, 'approvers')):
                    lam = f[1][2][1]
                    if lam[0] == 'lambda' and len(lam[3]) == 1 and not lam[3][0][0]:
                        ret = lam[3][0][1]
                        if ret[0] == 'contains' and ret[1] == SOMEV(M(V_, 'approvers')) and (ret[2][0] == 'bound' or (ret[2][0] in ('tostr', 'call') and 'bound' in repr(ret[2]))): ok = True
            eng.ob(ok, PROP, 'freeze', 'approvers-superset', 'approvers are replaced while %s are open on a path that does not establish current approvers is a subset of the new list' % ('asks' if ask_open else 'bids'),
                   where=w['site'], detail=p.describe(24), sample={'rule': 'freeze', 'what': 'approver superset', 'asks_open': ask_open, 'bids_open': bid_open})
    for fld in ('approvers', 'executors', 'ask_fee_info', 'bid_fee_info', 'ask_required_attributes', 'bid_required_attributes'):
        eng.ob(seen[fld] > 0, PROP, 'floor-table-row', fld, 'no successful path installs %s (fail closed)' % fld)
    # market parameters / configuration unwritable from any other execute request
    for p in eng.paths('execute', 'ok'):
        if p.variant == V_: continue
        for w in p.writes:
            eng.ob(w['ns'] != 'contract_info', PROP, 'market-frozen', 'other-request:' + str(p.variant), '%s writes the configuration' % p.variant, where=w['site'])
    return {
        'explanation': 'On every successful path of ModifyContract: exactly one write, the stored configuration with only the six changeable fields touched; each supplied field installed exactly (lists element-wise address-validated, fee pair -> FeeInfo or None for the empty pair, attributes verbatim), omitted fields kept; '
                       'freeze guards with side agreement: fee rate written while that side is open only with current fee present and numerically equal rate (ask side uses the "ask" map, ask fee, ask message fields; likewise bids); required attributes only when that side is empty; approvers while any order is open only with current subset-of new; empty lists and half pairs refused; no other execute request writes the configuration.',
        'inventory': {'ok_paths': len(oks), 'installed_rows': dict(seen)},
        'trusted_base': ['interpreter models (loops unrolled to 3 iterations; per-iteration structure checked)', 'HashSet::is_subset / Map::is_empty semantics'],
        'not_decided': ['the fee actually charged on later matches is the composition with C09 (rate source), not re-checked over histories'], 'assumptions': [],
    }

import probes as _pb
PROBES = [
    _pb.drop_facts('execute', 'ModifyContract', 'storage_is_empty'),
    _pb.drop_write('execute', 'ModifyContract', 'contract_info'),
]
