"""C15 Bid format conversion preserves every bid's remaining amounts (R-table field wiring + event->accumulator closure tables, window constant, same-key rewrite, skip rule)."""
from engine import *
from c14 import gate_facts, PARSED
import semverlite
PROP = 'C15'
WINDOW = '>=0.16.2, <0.19.1'      # frozen from the pinned tree, confirmed by reading

# expected closure summaries: accumulator -> {event kind: what is summed}
def expected_table(acc):
    if acc == 'accumulated_base': return {'Fill': ('base',), 'Reject': ('base',), 'Refund': None}
    if acc == 'accumulated_quote': return {'Fill': ('quote',), 'Reject': ('quote',), 'Refund': ('quote',)}
    return {'Fill': ('fee',), 'Reject': ('fee',), 'Refund': ('fee',)}

NOTHING = ('nothing',)
ELEM = ('bound', '<event>', 0)

def subst(t, a, b):
    if t == a: return b
    if isinstance(t, tuple): return tuple(subst(x, a, b) for x in t)
    return t

def consistent(facts):
    seen = {}
    for f in facts:
        if f[0] == 'is':
            if seen.setdefault(f[1], f[2]) != f[2]: return False
    for f in facts:
        if f[0] == 'isnot' and seen.get(f[1]) in f[2]: return False
    return True

def contributions(term, OLD):
    """term = sum(STAGES(iter(OLD.events))) with STAGES a chain of map / filter_map / filter closures: the composed table
    [(facts about the event, contributed value | NOTHING)], or None when the term is not such a pipeline"""
    if not (term[0] == 'call' and term[1].endswith('Iterator::sum') and term[2]): return None
    t = term[2][0]; stages = []
    while t[0] == 'call' and t[1].rsplit('::', 1)[-1] in ('map', 'filter_map', 'filter') and 'Iterator' in t[1] and len(t[2]) == 2 and t[2][1][0] == 'lambda':
        stages.insert(0, (t[1].rsplit('::', 1)[-1], t[2][1])); t = t[2][0]
    if t != ('iter', F(OLD, 'events')) or not stages: return None
    rows = [((), ELEM)]
    for kind, lam in stages:
        b = ('bound', lam[1], 0); nxt = []
        for fs, x in rows:
            if x == NOTHING: nxt.append((fs, x)); continue
            for facts, ret in lam[3]:
                f2 = tuple(subst(f, b, x) for f in facts); r2 = subst(ret, b, x)
                allf = fs + tuple(f for f in f2 if f not in fs)
                if not consistent(allf): continue
                if kind == 'map': nxt.append((allf, r2))
                elif kind == 'filter_map':
                    if r2[0] == 'adt' and r2[1].endswith('Option') and r2[2] == 'None': nxt.append((allf, NOTHING))
                    elif r2[0] == 'adt' and r2[1].endswith('Option') and r2[2] == 'Some': nxt.append((allf, dict(r2[3])['0']))
                    else: return None
                else:
                    if r2 in (('bool', True), ('c', True)): nxt.append((allf, x))
                    elif r2 in (('bool', False), ('c', False)): nxt.append((allf, NOTHING))
                    else: return None
        rows = nxt
    return rows

def check_sum(eng, acc, term, OLD, site):
    """term == sum over OLD.events through map/filter_map/filter closures whose composed outcome table equals the spec"""
    rows = contributions(term, OLD)
    eng.ob(rows is not None, PROP, 'sum-shape', acc, 'converted %s is not the sum over the old bid\'s events: %s' % (acc, K(term)[:160]), where=site)
    if rows is None: return
    action = F(ELEM, 'action')
    want = expected_table(acc)
    got = {}
    for facts, ret in rows:
        kind = None; fee_state = None
        for f in facts:
            if f[0] == 'is' and f[1] == action: kind = f[2]
            if f[0] == 'isnot' and f[1] == action: kind = 'other:' + '|'.join(f[2])
            if f[0] == 'is' and f[1][0] == 'v' and f[1][1] == action and f[1][3] == 'fee': fee_state = f[2]
        got.setdefault(kind, []).append((fee_state, ret))
    for kind, spec in want.items():
        outs = got.get(kind)
        if outs is None:
            # a wildcard arm covering this kind
            outs = [o for k, v in got.items() if k and k.startswith('other:') and kind not in k.split(':', 1)[1].split('|') for o in v] or None
        eng.ob(outs is not None, PROP, 'sum-table', '%s:%s' % (acc, kind), '%s: events of kind %s are not handled by the summing closure' % (acc, kind), where=site)
        if outs is None: continue
        for fee_state, ret in outs:
            zero = ret in (I(0), NOTHING)
            if spec is None: exp_ok = zero
            elif spec == ('fee',):
                if fee_state == 'None': exp_ok = zero
                elif fee_state == 'Some': exp_ok = ret == F(SOMEV(V(action, kind, 'fee')), 'amount')
                else: exp_ok = False
            else: exp_ok = ret == F(V(action, kind, spec[0]), 'amount')
            eng.ob(exp_ok, PROP, 'sum-table', '%s:%s:%s' % (acc, kind, fee_state), '%s: a %s event%s contributes %s, expected %s' % (
                acc, kind, (' with fee ' + fee_state) if fee_state else '', 'nothing' if ret == NOTHING else K(ret)[:100], 'nothing' if spec is None else ('its %s amount (absent fee = 0)' % spec[0])), where=site,
                sample={'rule': 'sum-table', 'accumulator': acc, 'event': kind, 'fee': fee_state, 'contributes': 'nothing' if ret == NOTHING else K(ret)[:80]})

def run(eng, tier):
    oks = eng.paths('migrate', 'ok')
    from wire import check_wire
    nwire = check_wire(eng, PROP, ['bid(old format)', 'bid'])
    nconv = 0; inside = outside = 0
    req = eng.s.get('serde', {}).get('required_fields', {})
    from wire import role_type
    OLD_T = role_type(eng, 'bid(old format)'); NEW_T = role_type(eng, 'bid')
    eng.ob(OLD_T is not None and NEW_T is not None, PROP, 'anchor', 'bid-formats', 'cannot identify the old and the current bid record types from the storage accesses (old %s, current %s)' % (OLD_T, NEW_T))
    v2 = [k for k in req if k == OLD_T]
    eng.ob(bool(v2) and 'events' in req[v2[0]], PROP, 'skip-rule', 'events-required', 'BidOrderV2.events is not a required field of the derived Deserialize impl: current-format bids would decode as old-format ones and be rewritten')
    v3 = [k for k in req if k == NEW_T]
    eng.ob(bool(v3) and all(a in req[v3[0]] for a in ('accumulated_base', 'accumulated_quote', 'accumulated_fee')), PROP, 'skip-rule', 'accumulators-required', 'BidOrderV3 accumulators are not required fields')
    for p in oks:
        bw = [w for w in p.writes if w['ns'] == 'bid']
        gates = gate_facts(p)
        win = [(pos, rs, out) for pos, rs, out, ver in gates if rs and '<' in rs and ver == PARSED]
        eng.ob(len(win) == 1, PROP, 'window', 'tested-once', 'the conversion window is not tested exactly once against the parsed stored version on a successful path (found %s)' % [w[1] for w in win], detail=p.describe(14))
        if len(win) != 1: continue
        pos, rs, out = win[0]
        eng.ob(rs == WINDOW, PROP, 'window', 'constant', 'conversion window is "%s", expected "%s"' % (rs, WINDOW))
        if not out:
            outside += 1
            eng.ob(not bw, PROP, 'window', 'nothing-outside', 'bids are rewritten although the stored version is outside the conversion window', where=(bw[0]['site'] if bw else None))
            continue
        inside += 1
        reads = [e for e in p.e['effects'] if e[0] == 'read' and e[1] == 'bid']
        # completeness ("no bid is lost"): inside the window the whole range of old-format entries is walked -- the path ends the walk by
        # exhaustion (iternext(range-derived iterator, k) is None) after exactly k conversions, it does not leave early
        walk = [f for f, _, _ in p.facts if f[0] == 'is' and f[1][0] == 'iternext' and 'srange' in repr(f[1][1])]
        ends = [f for f in walk if f[2] == 'None']
        okc = len(ends) == 1 and ends[0][1][2] == len(bw) and all(f[2] == 'Some' for f in walk if f is not ends[0]) and \
            any(e[3] == 'range' and OLD_T is not None and OLD_T in e[4][3] for e in reads)
        eng.ob(okc, PROP, 'conversion', 'complete', 'a successful migration inside the conversion window does not walk the whole range of old-format bids (%d conversions; walk ended %s): a bid still in the old format would be left behind' % (
            len(bw), 'by exhaustion after %s elements' % ends[0][1][2] if len(ends) == 1 else 'without reaching the end of the range'), where=p, detail=p.describe(14))
        for w in bw:
            nconv += 1
            eng.ob(w['op'] == 'save' and w['fpos'] > pos, PROP, 'window', 'save-inside', 'a bid write is not a save inside the window test', where=w['site'])
            k = w['key']
            # the key comes from the range over the "bid" namespace decoded as the old format, undecodable entries skipped.
            # Two shapes: a list of keys (|kv| kv.ok().map(|r| r.0)) reloaded one by one, or a list of (key, record) entries (|kv| kv.ok())
            entry_form = k[0] == 'f' and k[2] == '0'
            item = k[1] if entry_form else k
            okk = item[0] == 'v' and item[1][0] == 'iternext' and item[1][1][0] == 'iter' and item[1][1][1][0] == 'collect'
            src = item[1][1][1][1] if okk else None
            # Iterator::flatten over the range's Result items keeps the payload of every Ok and skips every Err: the same filter as |kv| kv.ok()
            flat = bool(okk and src[0] == 'call' and src[1].endswith('::flatten') and 'Iterator' in src[1] and len(src[2]) == 1 and src[2][0][0] == 'srange' and src[2][0][1] == 'bid')
            okk = okk and (flat or (src[0] == 'call' and src[1].endswith('filter_map') and src[2][0][0] == 'srange' and src[2][0][1] == 'bid' and src[2][1][0] == 'lambda'))
            eng.ob(okk, PROP, 'keys', 'from-range', 'converted bid key %s does not come from the filtered range over the "bid" namespace' % K(k)[:160], where=w['site'])
            if okk and flat:
                eng.ob(entry_form, PROP, 'keys', 'skip-undecodable', 'a flattened range yields (key, record) entries; the key must be the entry\'s first component', where=w['site'])
            elif okk:
                lam = src[2][1]; b = ('bound', lam[1], 0)
                outs = {tuple(f for f in facts): ret for facts, ret in lam[3]}
                payload = V(b, 'Ok', '0') if entry_form else F(V(b, 'Ok'), '0')
                okl = len(lam[3]) == 2 and outs.get((('is', b, 'Err'),)) == ('adt', 'std::option::Option', 'None', ()) and \
                    outs.get((('is', b, 'Ok'),)) == ('adt', 'std::option::Option', 'Some', (('0', payload),))
                eng.ob(okl, PROP, 'keys', 'skip-undecodable', 'the range filter is not |kv| kv.ok() (optionally keeping only the key): entries that are not old-format must be skipped, decodable ones kept', where=w['site'],
                       sample={'rule': 'keys', 'filter': [(tuple(PF(f) for f in fs), K(r)) for fs, r in lam[3]]})
            # range / load are typed as the old format
            rng = [e for e in reads if e[3] == 'range']
            eng.ob(bool(rng) and any(OLD_T is not None and OLD_T in e[4][3] for e in rng), PROP, 'keys', 'range-typed-old', 'the scanned range is not decoded as the old bid format')
            val = w['val']
            eng.ob(val[0] == 'adt' and val[1] == NEW_T, PROP, 'conversion', 'built', 'the saved bid is not built as a current-format record', where=w['site'])
            if val[0] != 'adt': continue
            d = dict(val[3])
            OLD = d.get('id')[1] if d.get('id') and d['id'][0] == 'f' else None
            if entry_form:
                # the record of the very entry whose key is used (range yields (key, record stored under it))
                # ... or the record reloaded under that entry's key
                okold = okk and (OLD == F(item, '1') or (OLD is not None and OLD[0] == 'stored' and OLD[1] == 'bid' and OLD[2] == k))
            else:
                okold = OLD is not None and OLD[0] == 'stored' and OLD[1] == 'bid' and OLD[2] == k
            eng.ob(okold, PROP, 'conversion', 'same-key', 'the converted record is not derived from the old record stored under the same key', where=w['site'])
            if not okold: continue
            if not entry_form or OLD != F(item, '1'):
                ld = [e for e in reads if e[3] == 'load' and eng.N['migrate'](e[2]) == k]
                eng.ob(bool(ld) and all(OLD_T is not None and OLD_T in e[4][5] for e in ld), PROP, 'conversion', 'loaded-as-old', 'the record to convert is not loaded as the old format', where=w['site'])
            for fld in ('base', 'fee', 'id', 'owner', 'price', 'quote'):
                eng.ob(d.get(fld) == F(OLD, fld), PROP, 'conversion', 'field:' + fld, 'converted %s is %s, not the old record\'s %s' % (fld, K(d.get(fld))[:100] if d.get(fld) else None, fld), where=w['site'])
            for acc in ('accumulated_base', 'accumulated_quote', 'accumulated_fee'):
                if acc in d: check_sum(eng, acc, d[acc], OLD, w['site'])
                else: eng.fail(PROP, 'conversion', 'field:' + acc, 'converted record lacks %s' % acc, where=w['site'])
            eng.ob(set(d) == {'base', 'fee', 'id', 'owner', 'price', 'quote', 'accumulated_base', 'accumulated_quote', 'accumulated_fee'}, PROP, 'conversion', 'field-set', 'converted record field set is %s' % sorted(d))
    eng.ob(nconv > 0 and inside > 0 and outside > 0, PROP, 'floor', 'paths', 'conversion paths not found (inside window %d, outside %d, conversions %d)' % (inside, outside, nconv))
    return {
        'explanation': 'On `migrate` (conversion inlined): bid saves occur only inside the test matches("%s") on the parsed stored version; each saved value is a BidOrderV3 whose plain fields are the same-named fields of the record loaded as BidOrderV2 under the same key, and whose accumulators are sum(map(old.events, closure)) with closure summaries equal to the event table '
                       '(base: Fill+Reject; quote and fee: all three kinds, absent fee = 0); keys come from the range over "bid" decoded as V2 with undecodable entries skipped (filter_map ok); BidOrderV2.events is a required field (read from the derived Deserialize impl), so current-format records are skipped. A converted bid is a BidOrderV3 and then behaves per C02/C04.' % WINDOW,
        'inventory': {'wire_format_types_checked': nwire, 'conversion_saves_checked': nconv, 'paths_inside_window': inside, 'paths_outside_window': outside},
        'trusted_base': ['serde decoding', 'Iterator::sum/map/filter_map/collect semantics', 'interpreter loop unrolling (3 iterations; per-iteration obligations)'],
        'not_decided': ['serde decoding itself'], 'assumptions': [],
    }

import probes as _pb
PROBES = [
    _pb.drop_facts('migrate', None, '<0.19.1'),
]
