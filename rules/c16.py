"""C16 Queries are read-only and report the book and configuration faithfully (R-type signature + witnesses, R-write none, R-dispatch/R-origin)."""
import os, subprocess, shutil, time
from engine import *
from refusal import *
PROP = 'C16'
TABLE = {'GetAsk': ('ask', 'id'), 'GetBid': ('bid', 'id'), 'GetContractInfo': ('contract_info', None), 'GetVersionInfo': ('version_info', None)}

def run(eng, tier):
    sig = eng.s['roots'].get('query', {}).get('sig')
    eng.ob(sig is not None, PROP, 'anchor', 'query', 'query entry point not found (fail closed)')
    if sig is None: return {}
    eng.ob(sig['inputs'][0].startswith('cosmwasm_std::Deps<') and 'DepsMut' not in sig['inputs'][0], PROP, 'signature', 'deps-immutable',
           'the query entry point takes %s; it must take the immutable cosmwasm_std::Deps' % sig['inputs'][0], where=sig['span'], sample={'rule': 'signature', 'inputs': sig['inputs']})
    misc = eng.s['misc']
    eng.ob(not [s for s in misc['statics'] if s['mut']], PROP, 'no-global-state', 'static-mut', 'the crate declares `static mut` items: %s' % [s['def'] for s in misc['statics'] if s['mut']])
    interior = [s for s in misc['statics'] if any(x in s['ty'] for x in ('Cell', 'Mutex', 'RwLock', 'Atomic', 'OnceLock', 'Lazy'))]
    eng.ob(not interior, PROP, 'no-global-state', 'interior-mutable-static', 'interior-mutable statics: %s' % [s['def'] for s in interior])
    eng.ob(not [s for s in misc['fn_sigs'] if s['unsafe']], PROP, 'no-global-state', 'unsafe-fn', 'unsafe functions declared in the crate')
    variants = None
    qty = ((eng.s['roots'].get('query', {}).get('sig') or {}).get('inputs') or [None])[-1]    # the request type of the `query` entry point
    for a in eng.s['adts']:
        if a['def'] == qty: variants = [v['name'] for v in a['variants']]
    eng.ob(variants is not None, PROP, 'anchor', 'QueryMsg', 'QueryMsg not found')
    for v in (variants or []):
        eng.ob(v in TABLE, PROP, 'dispatch-classified', v, 'query kind %s has no entry in the spec table (new query?)' % v)
    N = eng.N['query']
    # types read by the state-changing paths for each namespace (the writers' view)
    exec_types = collections.defaultdict(set)
    for root in ('execute',):
        for p in eng.paths(root, 'ok'):
            for e in p.e['effects']:
                if e[0] == 'read' and e[3] in ('load', 'may_load', 'may_load(update)') and isinstance(e[4], tuple) and len(e[4]) > 5:
                    exec_types[e[1]].add(e[4][5][-1])
    for v, (ns, idf) in TABLE.items():
        ps = eng.paths('query', None, v)
        rets = [p for p in ps if p.kind in ('ret', 'ok')]
        eng.ob(len(rets) == 1, PROP, 'dispatch', v, '%s: expected exactly one successful path, found %d' % (v, len(rets)))
        for p in ps:
            eng.ob(not p.writes, PROP, 'read-only', v, '%s performs a storage write' % v, where=(p.writes[0]['site'] if p.writes else None))
            eng.ob(not p.messages, PROP, 'read-only', v + ':messages', '%s emits messages' % v)
            for e in p.effects:
                eng.ob(e['op'] == 'read' and e['ns'] == ns, PROP, 'dispatch', v + ':reads-only-its-namespace', '%s touches namespace %s (%s); it must only read "%s"' % (v, e['ns'], e['op'], ns), where=e['site'])
        for p in rets:
            key = M(v, idf) if idf else None
            want = ('call', 'cosmwasm_std::to_binary', (stored(ns, key),))
            got = N(p.e['ret'])
            eng.ob(got == want, PROP, 'dispatch', v + ':returns-the-stored-record', '%s returns %s, expected to_binary(record stored in "%s" under %s)' % (v, K(got)[:160], ns, 'the request id' if idf else 'the item'),
                   sample={'rule': 'dispatch', 'query': v, 'returns': K(got)[:100]})
            rd = [e for e in p.e['effects'] if e[0] == 'read']
            okb = any(all(p.pos(f) is not None for f in alt) for alt in on_book_facts(ns, key))
            eng.ob(len(rd) == 1 and okb, PROP, 'dispatch', v + ':missing-is-error', '%s succeeds without establishing that the key is present (a missing key must be an error)' % v)
            if rd and isinstance(rd[0][4], tuple) and len(rd[0][4]) > 5 and ns in exec_types:
                ty = rd[0][4][5][-1]
                eng.ob(ty in exec_types[ns], PROP, 'reader-writer-agree', v, '%s decodes "%s" as %s but the state-changing paths use %s' % (v, ns, ty, sorted(exec_types[ns])))
            if idf:
                eng.ob(p.pos(('is', ('uuid_parse', M(v, idf)), 'Ok')) is not None, PROP, 'dispatch', v + ':id-validated', '%s does not validate the id as a UUID (either form)' % v)
    # "fails for orders that have been completely filled, cancelled, expired or rejected": an exhausted order leaves the maps the queries read
    from book import remove_iff_zero
    from invariants import check_I4
    nrz = 0
    for v in ('ExecuteMatch', 'ExpireAsk', 'RejectAsk', 'CancelBid', 'ExpireBid', 'RejectBid', 'CancelAsk'):
        for p in eng.paths('execute', 'ok', v):
            nrz += remove_iff_zero(eng, PROP, p)
            # "the amounts reported for an order are those a cancel would return": the recorded unspent quote stays price x unfilled size
            check_I4(eng, PROP, p)
    refs = Refusals(eng, 'query')
    for v, (ns, idf) in TABLE.items():
        T = [('id-not-a-uuid', 'L', lambda e, v=v, idf=idf: idf is not None and e['fact'] == ('is', ('uuid_parse', M(v, idf)), 'Err')),
             ('not-on-book', 'L', lambda e, ns=ns, v=v, idf=idf: is_storage_load_err(e['fact'], ns) or is_not_on_book(e['fact'], ns, M(v, idf) if idf else None))]
        check_table(eng, PROP, refs, v, T, [], 'a query')
    return {
        'explanation': 'R-type: the discovered `query` entry point takes cosmwasm_std::Deps (immutable storage) and the crate has no unsafe fn, static mut or interior-mutable static; R-write: no write effect or message on any path of `query`; R-dispatch/R-origin: each QueryMsg variant reads only its namespace with a failing load keyed by the raw request id and returns to_binary of exactly that record, decoded with the type the state-changing paths use; ids only need to parse as UUID. '
                       'Thorough tier adds compile-fail witnesses (with compiling twins) that a Map::save/remove through Deps.storage does not type-check and that `query` does not coerce to a DepsMut signature.',
        'inventory': {'query_paths': len(eng.paths('query'))},
        'trusted_base': ['Rust type system (shared reference to dyn Storage cannot reach &mut self methods)', 'interpreter storage model'],
        'not_decided': ['JSON encoding'], 'assumptions': ['closed orders are absent from the maps by the remove-iff-zero rule (C11/C01)'],
    }

def thorough_extra(eng, summ):
    """compile-fail witnesses in a generated harness crate (path-depends on /repo, same lockfile)"""
    V = VERIF; repo = os.environ.get('ATSA_REPO', '/repo')
    w = os.path.join(V, '.cache', 'witness'); os.makedirs(os.path.join(w, 'src'), exist_ok=True)
    qdef = summ['entry'].get('query', 'contract::query')
    qpath = 'ats_smart_contract::' + qdef
    lock = open(os.path.join(repo, 'Cargo.lock')).read()
    import re
    def ver(name):
        mm = re.search(r'name = "%s"\nversion = "([^"]+)"' % re.escape(name), lock)
        return mm.group(1) if mm else '*'
    open(os.path.join(w, 'Cargo.toml'), 'w').write('''[package]
name = "atsa-witness"
version = "0.0.0"
edition = "2021"
[lib]
path = "src/lib.rs"
[dependencies]
ats-smart-contract = { path = "%s" }
cosmwasm-std = "=%s"
cw-storage-plus = "=%s"
[workspace]
''' % (repo, ver('cosmwasm-std'), ver('cw-storage-plus')))
    shutil.copy(os.path.join(repo, 'Cargo.lock'), os.path.join(w, 'Cargo.lock'))
    open(os.path.join(w, 'src', 'lib.rs'), 'w').write('''//! Type-level witnesses for C16 (generated by rules/c16.py; each compile_fail has a compiling twin differing only in the offending part).

/// W1: saving through the storage handed to a query does not type-check (E0308: expected `&mut dyn Storage`, found `&dyn Storage`).
/// ```compile_fail,E0308
/// use cosmwasm_std::Deps; use cw_storage_plus::Map;
/// pub fn f(deps: Deps) { let m: Map<&[u8], u64> = Map::new("x"); m.save(deps.storage, b"k", &1u64).unwrap(); }
/// ```
/// W1 twin: the same body with `DepsMut` compiles.
/// ```
/// use cosmwasm_std::DepsMut; use cw_storage_plus::Map;
/// pub fn f(deps: DepsMut) { let m: Map<&[u8], u64> = Map::new("x"); m.save(deps.storage, b"k", &1u64).unwrap(); }
/// ```
/// W2: removing through `Deps.storage` does not type-check.
/// ```compile_fail,E0308
/// use cosmwasm_std::Deps; use cw_storage_plus::Map;
/// pub fn f(deps: Deps) { let m: Map<&[u8], u64> = Map::new("x"); m.remove(deps.storage, b"k"); }
/// ```
/// W2 twin.
/// ```
/// use cosmwasm_std::DepsMut; use cw_storage_plus::Map;
/// pub fn f(deps: DepsMut) { let m: Map<&[u8], u64> = Map::new("x"); m.remove(deps.storage, b"k"); }
/// ```
/// W3: the contract's query entry point has the read-only signature ...
/// ```
/// let _f: fn(cosmwasm_std::Deps, cosmwasm_std::Env, ats_smart_contract::msg::QueryMsg) -> cosmwasm_std::StdResult<cosmwasm_std::Binary> = QPATH;
/// ```
/// ... and does not coerce to a state-changing one.
/// ```compile_fail,E0308
/// let _f: fn(cosmwasm_std::DepsMut, cosmwasm_std::Env, ats_smart_contract::msg::QueryMsg) -> cosmwasm_std::StdResult<cosmwasm_std::Binary> = QPATH;
/// ```
pub struct Witnesses;
'''.replace('QPATH', qpath))
    env = dict(os.environ)
    sysroot = subprocess.run(['rustc', '+nightly', '--print', 'sysroot'], capture_output=True, text=True).stdout.strip()
    env.update({'LD_LIBRARY_PATH': sysroot + '/lib', 'RUSTC_WRAPPER': os.path.join(V, 'atsa', 'target', 'release', 'atsa-driver'), 'CARGO_NET_OFFLINE': 'true',
                'CARGO_TARGET_DIR': os.path.join(V, '.cache', 'target-witness')})
    env.pop('ATSA_OUT', None)
    t0 = time.time()
    r = subprocess.run(['cargo', '+nightly', 'test', '--doc', '--offline'], cwd=w, env=env, capture_output=True, text=True)
    out = r.stdout + r.stderr
    import re as _re
    mres = _re.search(r'test result: (\w+)\. (\d+) passed; (\d+) failed', out)
    ok = r.returncode == 0 and mres is not None and mres.group(1) == 'ok' and int(mres.group(2)) == 6 and out.count('compile fail') >= 3
    eng.ob(ok, PROP, 'witness', 'compile-fail-and-twins', 'type-level witnesses did not all hold (expected 6 doc tests: 3 compile_fail + 3 compiling twins): %s' % (mres.group(0) if mres else out[-600:]))
    return {'witness': {'passed': int(mres.group(2)) if mres else 0, 'failed': int(mres.group(3)) if mres else None, 'wall_s': round(time.time() - t0, 1), 'cmd': 'cargo +nightly test --doc --offline (in .cache/witness)'}}

import probes as _pb
PROBES = [
    _pb.drop_facts('query', 'GetAsk', 'uuid_parse'),
]
