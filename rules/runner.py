#!/usr/bin/env python3
"""check runner: extraction (cached by content hash of /repo's working tree), interpretation,
rules of one property, known-findings, evidence, exit status."""
import os, sys, json, time, hashlib, subprocess, pickle, fcntl, importlib, glob
HERE = os.path.dirname(os.path.abspath(__file__))
VERIF = os.path.dirname(HERE)
sys.path.insert(0, HERE)
sys.setrecursionlimit(20000)
REPO = os.environ.get('ATSA_REPO', '/repo')
CACHE = os.environ.get('ATSA_CACHE_DIR') or os.path.join(VERIF, '.cache')      # per-worker caches for the parallel matrix / recheck tools

def tree_hash(profile):
    h = hashlib.sha256()
    files = sorted(glob.glob(os.path.join(REPO, 'src', '**', '*.rs'), recursive=True))
    files += [os.path.join(REPO, 'Cargo.toml'), os.path.join(REPO, 'Cargo.lock')]
    files += [os.path.join(VERIF, 'atsa', 'src', 'main.rs'), os.path.join(HERE, 'interp.py'), os.path.join(HERE, 'models.py'),
              os.path.join(VERIF, 'extract.sh')]
    for f in files:
        h.update(f.encode()); h.update(b'\0')
        try: h.update(open(f, 'rb').read())
        except OSError: h.update(b'<missing>')
    h.update(profile.encode())
    return h.hexdigest()[:20]

def conditional_sources():
    """files of /repo's src that use conditional compilation other than `cfg(test)` / `cfg(not(test))` (a trigger for the extra release-profile
    pass, never a verdict): the analysed program is the one the selected configuration compiles, so profile-dependent code needs both profiles"""
    import re
    pat = re.compile(r'debug_assertions|overflow_checks|cfg!\s*\(|cfg_attr\s*\(|cfg\s*\((?!\s*(?:test|not\s*\(\s*test\s*\))\s*\))')
    hits = []
    for f in sorted(glob.glob(os.path.join(REPO, 'src', '**', '*.rs'), recursive=True)):
        try: txt = open(f, errors='replace').read()
        except OSError: continue
        n = len(pat.findall(txt))
        if n: hits.append({'file': os.path.relpath(f, REPO), 'sites': n})
    return hits

def get_summary(profile='dev', use_cache=True, verbose=False, merge_bool=True):
    os.makedirs(CACHE, exist_ok=True)
    hh = tree_hash(profile + ('' if merge_bool else '-nomerge'))
    spath = os.path.join(CACHE, 'summ-%s.pkl' % hh)
    lock = open(os.path.join(CACHE, 'lock-%s' % profile), 'w')
    fcntl.flock(lock, fcntl.LOCK_EX)
    try:
        if use_cache and os.path.exists(spath):
            try:
                with open(spath, 'rb') as f: return pickle.load(f), {'cached': True, 'hash': hh}
            except Exception:
                pass
        fpath = os.path.join(CACHE, 'facts-%s.json' % hh)
        t0 = time.time()
        r = subprocess.run([os.path.join(VERIF, 'extract.sh'), fpath, profile.split('-')[0]], capture_output=True, text=True)
        if r.returncode != 0 or not os.path.exists(fpath):
            sys.stdout.write(r.stdout[-3000:]); sys.stderr.write(r.stderr[-3000:])
            print('EXTRACT-FAILED: the driver could not analyse %s (does it compile?)' % REPO); sys.exit(2)
        t1 = time.time()
        import interp
        summ = interp.analyse(fpath, None, verbose=verbose, merge_bool=merge_bool)
        summ['extract_wall'] = t1 - t0; summ['interp_wall'] = time.time() - t1; summ['profile'] = profile
        tmp = spath + '.tmp%d' % os.getpid()
        with open(tmp, 'wb') as f: pickle.dump(summ, f, protocol=4)
        os.replace(tmp, spath)
        try: os.remove(fpath)
        except OSError: pass
        # keep the cache small: drop older summaries
        olds = sorted(glob.glob(os.path.join(CACHE, 'summ-*.pkl')), key=os.path.getmtime)
        for o in olds[:-6]:
            try: os.remove(o)
            except OSError: pass
        return summ, {'cached': False, 'hash': hh}
    finally:
        fcntl.flock(lock, fcntl.LOCK_UN); lock.close()

def main():
    import argparse
    ap = argparse.ArgumentParser()
    ap.add_argument('prop')
    ap.add_argument('--tier', default=os.environ.get('VERIF_TIER', 'quick'))
    ap.add_argument('--verbose', action='store_true')
    a = ap.parse_args()
    prop = a.prop.upper(); tier = a.tier if a.tier in ('quick', 'thorough') else 'quick'
    seed = int(os.environ.get('VERIF_SEED', '0') or 0)
    t0 = time.time()
    import engine
    summ, meta = get_summary('dev', use_cache=(tier == 'quick'), verbose=a.verbose)
    eng = engine.Engine(summ)
    mod = importlib.import_module(prop.lower())
    info = mod.run(eng, tier) or {}
    extra = {}
    # conditional compilation other than cfg(test): the unit tests run under the dev profile only, the deployed artefact is a release build.
    # If the source mentions any cfg predicate / cfg! macro beyond `test`, the release-profile pass is run at the quick tier too.
    cond = conditional_sources()
    extra['conditional_compilation_sites'] = cond
    if tier == 'thorough' or cond:
        # second extraction under the release profile's flags: verdicts must coincide
        summ2, meta2 = get_summary('release', use_cache=False, verbose=a.verbose)
        eng2 = engine.Engine(summ2)
        mod.run(eng2, tier)
        k1 = sorted(set((v.rule, v.key) for v in eng.violations)); k2 = sorted(set((v.rule, v.key) for v in eng2.violations))
        extra['release_profile_agrees'] = (k1 == k2)
        extra['release_obligations'] = eng2.obligations
        if k1 != k2:
            for v in eng2.violations:
                if (v.rule, v.key) not in set(k1):
                    v.msg = '[release profile only] ' + v.msg; eng.violations.append(v)
    if tier == 'thorough':
        if getattr(mod, 'THOROUGH_UNMERGED', False):
            # third pass: helper outcomes NOT merged (every marker-query outcome is its own path); verdicts must coincide
            summ3, meta3 = get_summary('dev', use_cache=False, verbose=a.verbose, merge_bool=False)
            eng3 = engine.Engine(summ3)
            mod.run(eng3, tier)
            k3 = sorted(set((v.rule, v.key) for v in eng3.violations))
            extra['unmerged_pass'] = {'agrees': k3 == k1, 'obligations': eng3.obligations, 'abstract_paths_execute': len(summ3['roots']['execute']['exits'])}
            for v in eng3.violations:
                if (v.rule, v.key) not in set(k1):
                    v.msg = '[unmerged helper outcomes only] ' + v.msg; eng.violations.append(v)
        # the interpreter's own self-test corpus (functions with known semantics)
        st = subprocess.run([sys.executable, os.path.join(VERIF, 'selftest', 'test_interp.py')], capture_output=True, text=True)
        last = (st.stdout.strip().splitlines() or ['no output'])[-1] if st.returncode == 0 else (st.stdout + st.stderr)[-400:]
        extra['interpreter_selftest'] = last
        eng.ob(st.returncode == 0, prop, 'interpreter-selftest', 'cases', 'the abstract interpreter fails its self-test corpus: %s' % last)
        if getattr(mod, 'PROBES', None):
            import probes, pickle as _pk
            spath = os.path.join(CACHE, 'summ-%s.pkl' % meta['hash'])
            res = probes.run_probes(mod, lambda: _pk.load(open(spath, 'rb')), engine, tier)
            extra['probes'] = res
            for r in res:
                if r['mutated_sites'] > 0 and r['violations'] == 0:
                    eng.fail(prop, 'probe-vacuous', r['probe'], 'sensitivity probe %s perturbed %d sites of the extracted facts but no rule of this property reported it (the rule is vacuous)' % (r['probe'], r['mutated_sites']))
                elif r['mutated_sites'] == 0:
                    eng.fail(prop, 'probe-unbound', r['probe'], 'sensitivity probe %s found nothing to perturb (its anchor no longer exists)' % r['probe'])
                else:
                    eng.ob(True, prop, 'probe', r['probe'], '')
        if hasattr(mod, 'thorough_extra'):
            extra.update(mod.thorough_extra(eng, summ) or {})
    known = engine.load_known()
    EVD = os.environ.get('ATSA_EVIDENCE_DIR') or os.path.join(VERIF, 'evidence')
    os.makedirs(os.path.join(EVD, 'violations'), exist_ok=True)
    real = []; seen = set(); known_hit = []
    for v in eng.violations:
        kk = (v.prop, v.rule + ':' + v.key)
        if kk in seen: continue
        seen.add(kk)
        if (v.prop, v.rule + ':' + v.key) in known: known_hit.append(v)
        else: real.append(v)
    for v in known_hit:
        print('KNOWN-FINDING: property=%s %s %s' % (v.prop, v.rule + ':' + v.key, known[(v.prop, v.rule + ':' + v.key)]))
    for v in real:
        fn = hashlib.sha1((v.rule + ':' + v.key).encode()).hexdigest()[:12]
        rp = os.path.join('evidence', 'violations', '%s-%s.json' % (prop, fn))
        with open(os.path.join(EVD, 'violations', '%s-%s.json' % (prop, fn)), 'w') as f:
            json.dump({'property': prop, 'rule': v.rule, 'key': v.key, 'message': v.msg, 'where': v.where, 'detail': v.detail}, f, indent=1, default=str)
        print('%s: rule %s: %s' % (v.where or '-', v.rule, v.msg))
        for d in (v.detail or [])[:40]: print('      ' + str(d))
        print('VIOLATION property=%s replay=%s' % (prop, rp))
    wall = time.time() - t0
    roots = summ['roots']
    cov = {
        'explanation': info.get('explanation', ''),
        'obligations': eng.obligations, 'discharged': eng.discharged,
        'evaluations': eng.obligations, 'distinct_nontrivial': len(eng.instances),
        'rule': 'one evaluation = one rule instance checked against a path / site / table row of the extracted program; distinct_nontrivial = number of distinct rule classes that matched at least one real site',
        'rule_instances': dict(eng.instances),
        'roots': {k: {'fn': r['root'], 'abstract_paths': len(r['exits']), 'abort_sites': len(r.get('aborts', [])), 'steps': r.get('steps')} for k, r in roots.items()},
        'samples': eng.samples[:12] or [{'note': 'no sample recorded'}],
        'exhaustive': not summ.get('budget_hit', False),
        'bounds': {'inlining': 'complete (crate has no recursion)', 'loop_head_visits': 3, 'loop_iterations_completed': '0, 1 and 2',
                   'note': 'all CFG paths are enumerated; the only bound is the unrolling of the address-validation / bid-conversion loops (a loop head is entered at most 3 times, so paths with 0, 1 and 2 completed iterations exist), whose obligations are stated per iteration'},
        'checker_cmd': './check %s --tier %s' % (prop, tier),
        'trusted_base': info.get('trusted_base', []),
        'extraction': {'cached': meta['cached'], 'tree_hash': meta['hash'], 'profile': 'dev'},
        'inventory': info.get('inventory', {}),
        'not_decided': info.get('not_decided', []),
        'known_findings_suppressed': [v.rule + ':' + v.key for v in known_hit],
    }
    cov.update(extra)
    ev = {'property_id': prop, 'tier': tier, 'seed': seed, 'level': 'other', 'coverage': cov,
          'assumptions': info.get('assumptions', []), 'wall_s': round(wall, 2), 'violations': len(real)}
    with open(os.path.join(EVD, '%s.json' % prop), 'w') as f: json.dump(ev, f, indent=1, default=str)
    print('%s tier=%s obligations=%d discharged=%d violations=%d known=%d wall=%.1fs (extraction %s)' % (
        prop, tier, eng.obligations, eng.discharged, len(real), len(known_hit), wall, 'cached' if meta['cached'] else 'fresh'))
    if summ.get('budget_hit'):
        print('VIOLATION property=%s replay=evidence/%s.json' % (prop, prop)); print('path budget exhausted: analysis incomplete'); sys.exit(1)
    sys.exit(1 if real else 0)

if __name__ == '__main__':
    try:
        main()
    except SystemExit:
        raise
    except BaseException:
        # an internal error of the analysis is not a verdict about the property: distinct exit status, no VIOLATION line
        import traceback
        traceback.print_exc()
        print('ANALYSIS-ERROR: the checker itself failed (see traceback); no verdict')
        sys.exit(2)
