"""C03 Match eligibility and limit-price protection: R-guard (eight conditions on every Ok path), R-order, R-refusal."""
import itertools
from engine import *
from refusal import *
PROP = 'C03'
V_ = 'ExecuteMatch'
ASK = stored('ask', M(V_, 'ask_id')); BID = stored('bid', M(V_, 'bid_id'))
SIZE = M(V_, 'size'); PRICE = M(V_, 'price')
PA = DEC(F(ASK, 'price')); PB = DEC(F(BID, 'price')); PE = DEC(PRICE)
REMB = SUB(F(BID, 'base', 'amount'), F(BID, 'accumulated_base'))
REMQ = SUB(F(BID, 'quote', 'amount'), F(BID, 'accumulated_quote'))
GROSS = MUL(PE, SIZE); OGROSS = MUL(PB, SIZE)
CLASS = F(ASK, 'class'); STATUS = V(CLASS, 'Convertible', 'status')

def canonical_id_facts(idt):
    up = ('uuid_parse', idt)
    return [('is', up, 'Ok'), ('val', EQ(idt, ('tostr', ('call', 'uuid::fmt::<impl uuid::Uuid>::hyphenated', (V(up, 'Ok'),)))), True)]

def weak_orderings(n):
    seen = set()
    for r in itertools.product(range(n), repeat=n):
        # canonical: ranks used are 0..k-1 dense
        vals = sorted(set(r)); m = {v: i for i, v in enumerate(vals)}
        c = tuple(m[x] for x in r)
        if c not in seen: seen.add(c); yield c

def orderings_of(p, terms):
    """weak orderings of `terms` consistent with the path's eq/lt/cmp facts that mention only these terms"""
    idx = {t: i for i, t in enumerate(terms)}
    cons = []
    for f, _, _ in p.facts:
        rel = None
        if f[0] == 'val' and isinstance(f[2], bool) and f[1][0] in ('eq', 'lt'):
            a, b = f[1][1], f[1][2]
            if a in idx and b in idx: rel = (('eq' if f[2] else 'ne') if f[1][0] == 'eq' else ('lt' if f[2] else 'ge'), a, b)
        elif f[0] == 'is' and f[1][0] == 'ordcmp' and f[1][1] in idx and f[1][2] in idx:
            a, b = f[1][1], f[1][2]
            rel = {'Less': ('lt', a, b), 'Equal': ('eq', a, b), 'Greater': ('lt', b, a)}[f[2]]
        if rel: cons.append(rel)
    out = []
    for r in weak_orderings(len(terms)):
        ok = True
        for rel, a, b in cons:
            x, y = r[idx[a]], r[idx[b]]
            if (rel == 'eq' and x != y) or (rel == 'ne' and x == y) or (rel == 'lt' and not x < y) or (rel == 'ge' and not x >= y): ok = False; break
        if ok: out.append(r)
    return out, cons

def allowed_ordering(r):
    a, b, e = r          # ranks of ask, bid, exec
    return (a < b and (e == a or e == b)) or (a == b == e)

def price_fact(f):
    if f is None: return False
    if f[0] == 'val' and isinstance(f[2], bool) and f[1][0] in ('eq', 'lt'): return f[1][1] in (PA, PB, PE) and f[1][2] in (PA, PB, PE)
    if f[0] in ('is', 'isnot') and f[1][0] == 'ordcmp': return f[1][1] in (PA, PB, PE) and f[1][2] in (PA, PB, PE)
    return False

def run(eng, tier):
    oks = eng.paths('execute', 'ok', V_)
    eng.ob(len(oks) > 0, PROP, 'floor-ok-path', V_, 'no successful match path found (fail closed)')
    guards = [
        ('executor', [('val', CONTAINS(F(CFG, 'executors'), SENDER), True)]),
        ('same-quote', [('val', EQ(F(BID, 'quote', 'denom'), F(ASK, 'quote')), True)]),
        ('size<=ask', [('val', LT(F(ASK, 'size'), SIZE), False)]),
        ('size<=bid-remaining', [('val', LT(REMB, SIZE), False)]),
        ('size>=1', [('val', LT(SIZE, I(1)), False)]),
        ('exec-total-integral', [('val', EQ(('fract', GROSS), I(0)), True)]),
        ('ask-id-canonical', canonical_id_facts(M(V_, 'ask_id'))),
        ('bid-id-canonical', canonical_id_facts(M(V_, 'bid_id'))),
        ('prices-parse', [('is', ('rcall', 'from_str', (F(ASK, 'price'),)), 'Ok'), ('is', ('rcall', 'from_str', (F(BID, 'price'),)), 'Ok'), ('is', ('rcall', 'from_str', (PRICE,)), 'Ok')]),
    ]
    accepted = set()
    first_write_checked = 0
    for p in oks:
        fw = min([w['fpos'] for w in p.writes]) if p.writes else None
        for name, fs in guards:
            for f in fs:
                pos = p.pos(f)
                ok = pos is not None and (fw is None or pos < fw)
                eng.ob(ok, PROP, 'guard', '%s:%s' % (name, fact_key(f)), 'a match succeeds on a path that does not establish %s: %s' % (name, fact_key(f)),
                       where=p, detail=p.describe(), sample={'rule': 'guard', 'condition': name, 'fact': fact_key(f)})
        for name, ns, idf in (('ask-on-book', 'ask', 'ask_id'), ('bid-on-book', 'bid', 'bid_id')):
            okb = any(all(p.pos(f) is not None and (fw is None or p.pos(f) < fw) for f in alt) for alt in on_book_facts(ns, M(V_, idf)))
            eng.ob(okb, PROP, 'guard', name, 'a match succeeds on a path that does not establish that the %s named by the request is on the book' % ns, where=p, detail=p.describe())
        # approval state: plain, or convertible and Ready
        cls = p.variant_of(CLASS)
        ok = cls == 'Basic' or (cls == 'Convertible' and p.variant_of(STATUS) == 'Ready')
        eng.ob(ok, PROP, 'guard', 'ask-not-pending', 'a match succeeds on a path where the ask is not known to be plain or approved (class=%s status=%s)' % (cls, p.variant_of(STATUS)), where=p, detail=p.describe())
        # R-order over the three prices
        ords, cons = orderings_of(p, [PA, PB, PE])
        for r in ords:
            accepted.add(r)
            eng.ob(allowed_ordering(r), PROP, 'order', 'ranks(ask,bid,exec)=%s' % (r,),
                   'a match is accepted under the price ordering ranks(ask,bid,exec)=%s, which the limit-price rule forbids' % (r,), where=p, detail=p.describe(),
                   sample={'rule': 'order', 'ranks_ask_bid_exec': r, 'constraints': [(c[0], K(c[1]), K(c[2])) for c in cons]})
        improved = bool(ords) and all(r[2] < r[1] for r in ords)
        if improved:
            f = ('val', EQ(('fract', OGROSS), I(0)), True)
            eng.ob(p.pos(f) is not None, PROP, 'guard', 'bid-total-integral-when-improved', 'a match at an improved price succeeds without establishing that size x bid price is whole', where=p, detail=p.describe())
    want = set(r for r in weak_orderings(3) if allowed_ordering(r))
    eng.ob(accepted == want, PROP, 'order-converse', 'accepted-set', 'the set of price orderings under which a match can succeed is %s, expected exactly %s' % (sorted(accepted), sorted(want)))
    # R-refusal (converse): no refusal beyond the stated conditions
    refs = Refusals(eng, 'execute')
    RATE = DEC(F(SOMEV(F(CFG, 'ask_fee_info')), 'rate'))
    ASKFEE = ROUND0(MUL(RATE, GROSS))
    def isf(e, f): return e['fact'] == f
    def head_fail(e, kinds, res=('None', 'Err')):
        f = e['fact']; return f is not None and f[0] == 'is' and f[2] in res and f[1][0] == 'rcall' and f[1][1] in kinds
    def or_id(e, idn):
        f = e['fact']
        return f is not None and f[0] == 'or' and all(any(x[1] == ('uuid_parse', M(V_, idn)) or (x[0] == 'val' and x[1][0] == 'eq' and M(V_, idn) in x[1]) for x in alt) for alt in f[1])
    T = [
        ('not-executor', 'L', lambda e: isf(e, ('val', CONTAINS(F(CFG, 'executors'), SENDER), False))),
        ('funds-attached', 'L', lambda e: isf(e, ('val', ISEMPTY(FUNDS), False))),
        ('ask-unknown', 'L', lambda e: is_not_on_book(e['fact'], 'ask', M(V_, 'ask_id'))),
        ('bid-unknown', 'L', lambda e: is_not_on_book(e['fact'], 'bid', M(V_, 'bid_id'))),
        ('quote-mismatch', 'L', lambda e: isf(e, ('val', EQ(F(BID, 'quote', 'denom'), F(ASK, 'quote')), False))),
        ('request-price-unparsable', 'L', lambda e: isf(e, ('is', ('rcall', 'from_str', (PRICE,)), 'Err'))),
        # any comparison among the three prices that dooms the request: which orderings are accepted/refused is decided exactly by R-order above
        ('price-rule', 'L', lambda e: price_fact(e['fact'])),
        ('size-above-min-of-both', 'L', lambda e: e['fact'] is not None and e['fact'][0] == 'val' and e['fact'][2] is True and e['fact'][1][0] == 'lt' and e['fact'][1][2] == SIZE
            and e['fact'][1][1][0] == 'min' and set(e['fact'][1][1][1:]) == {F(ASK, 'size'), REMB}),
        ('size-above-ask', 'L', lambda e: isf(e, ('val', LT(F(ASK, 'size'), SIZE), True))),
        ('size-above-bid-remaining', 'L', lambda e: isf(e, ('val', LT(REMB, SIZE), True))),
        ('exec-total-fractional', 'L', lambda e: isf(e, ('val', EQ(('fract', GROSS), I(0)), False))),
        ('bid-total-fractional', 'L', lambda e: isf(e, ('val', EQ(('fract', OGROSS), I(0)), False))),
        ('ask-pending', 'L', lambda e: isf(e, ('is', STATUS, 'PendingIssuerApproval'))),
        ('id-not-canonical', 'L', lambda e: id_not_canonical_fact(e['fact'], M(V_, 'ask_id')) or id_not_canonical_fact(e['fact'], M(V_, 'bid_id'))),
        ('price-empty', 'L', lambda e: isf(e, ('val', ISEMPTY(PRICE), True))),
        ('size-below-1', 'L', lambda e: is_sign(e['fact'], SIZE, 'zero')),
        ('bid-fee-account-missing', 'L(fees payable)', lambda e: isf(e, ('is', F(CFG, 'bid_fee_info'), 'None'))),
        ('ask-fee-exceeds-gross', 'L(fees payable)', lambda e: isf(e, ('is', ('rcall', 'checked_sub', (GROSS, ASKFEE)), 'Err'))),
        ('config-load', 'I', lambda e: is_storage_load_err(e['fact'], 'contract_info')),
        ('storage-update', 'I', lambda e: is_save_err(e['fact']) or (is_storage_load_err(e['fact']) and e['fact'][1][3] == 'may_load')),
        ('stored-price-unparsable', 'D(I6)', lambda e: isf(e, ('is', ('rcall', 'from_str', (F(ASK, 'price'),)), 'Err')) or isf(e, ('is', ('rcall', 'from_str', (F(BID, 'price'),)), 'Err'))),
        ('ask-fee-rate-unparsable', 'D(K)', lambda e: isf(e, ('is', ('rcall', 'from_str', (F(SOMEV(F(CFG, 'ask_fee_info')), 'rate'),)), 'Err'))),
        ('numeric-overflow', 'I', lambda e: head_fail(e, ('checked_mul', 'to_u128', 'from_u128', 'checked_add'))),
        ('refund-difference', 'D(R-order: bid total >= exec total)', lambda e: isf(e, ('is', ('rcall', 'checked_sub', (OGROSS, GROSS)), 'None'))),
        ('fee-remaining-underflow', 'D(I7, L-mono)', lambda e: head_fail(e, ('checked_sub',), ('Err',)) and e['fact'][1][2][0] == SUB(F(SOMEV(F(BID, 'fee')), 'amount'), F(BID, 'accumulated_fee')) and e['fact'][1][2][1][0] == 'round'),
    ]
    def ab(e, kind): return e.get('abort') and e['abort'][0] == kind
    TA = [
        ('remaining-quote-underflow', 'D(I4, L-fit)', lambda e: ab(e, 'uint_Sub') and e['abort'][1] == REMQ),
        ('remaining-base', 'D(I3 / size guard)', lambda e: ab(e, 'uint_Sub') and e['abort'][1] == F(BID, 'base', 'amount')),
        ('remaining-fee', 'D(I3)', lambda e: ab(e, 'uint_Sub') and e['abort'][1] == F(SOMEV(F(BID, 'fee')), 'amount') and e['abort'][2] == F(BID, 'accumulated_fee')),
        ('remaining-quote', 'D(I3)', lambda e: ab(e, 'uint_Sub') and e['abort'][1] == F(BID, 'quote', 'amount') and e['abort'][2] == F(BID, 'accumulated_quote')),
        ('ask-size-sub', 'D(size guard)', lambda e: ab(e, 'uint_Sub') and e['abort'][1] == F(ASK, 'size') and e['abort'][2] == SIZE),
        ('fee-refund-sub', 'D(L-mono)', lambda e: ab(e, 'uint_Sub') and e['abort'][1][0] == 'sub' and e['abort'][2][0] == 'sub' and e['abort'][1][1] == e['abort'][2][1] == SUB(F(SOMEV(F(BID, 'fee')), 'amount'), F(BID, 'accumulated_fee'))),
        ('decimal-conversion', 'D(L-fit)', lambda e: ab(e, 'unwrap') and e['abort'][1][0] == 'rcall' and e['abort'][1][1] in ('from_u128', 'checked_div')),
        ('action-name-serialisation', 'D(unit enum serialises)', lambda e: is_unit_enum_serialisation(e)),
        ('zero-amount-marker-transfer', 'I', lambda e: is_generic_err_unwrap(e)),
    ]
    matched = check_table(eng, PROP, refs, V_, T, TA, 'a match request')
    if matched['size-above-min-of-both']:
        matched['size-above-ask'] += 1; matched['size-above-bid-remaining'] += 1
    else: matched['size-above-min-of-both'] = 1      # optional spelling
    for name, cls, _ in T:
        if cls.startswith('L') and name not in ('id-not-canonical',):
            eng.ob(matched[name] > 0, PROP, 'refusal-present', name, 'the stated refusal "%s" is not found in the code any more (condition no longer enforced?)' % name)
    return {
        'explanation': 'R-guard: each of the eligibility conditions is a guard fact on every successful abstract path of ExecuteMatch before the first write (stored prices/sizes vs request price/size as origin terms). '
                       'R-order: the three prices are related only through comparisons; for every successful path the weak orderings of (ask, bid, exec) consistent with its comparison facts are enumerated (13 orderings) and must lie in {ask<bid & exec in {ask,bid}} + {ask=bid=exec}; the union over paths must be exactly that set. '
                       'R-refusal: every Err/abort exit is keyed by its decisive fact (first branch after which no Ok exit is reachable) and must match the enumerated table (legitimate / incidental / discharged-by-invariant).',
        'inventory': {'ok_paths': len(oks), 'refusal_entries': dict(matched), 'accepted_orderings': sorted(accepted)},
        'trusted_base': ['interpreter models', 'lemmas L-mono, L-fit, invariants I3/I4/I6/I7 for discharged refusals (DESIGN §5-6)'],
        'not_decided': [], 'assumptions': ['rust_decimal comparison is a total order on parsed prices'],
    }

import probes as _pb
PROBES = [
    _pb.drop_facts('execute', 'ExecuteMatch', 'BID.quote.denom == ASK.quote'),
    _pb.drop_facts('execute', 'ExecuteMatch', 'ASK.size < msg.size'),
    _pb.drop_facts('execute', 'ExecuteMatch', 'ordcmp('),
]
