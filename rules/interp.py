#!/usr/bin/env python3
"""atsa layer 2a: path-sensitive abstract interpreter over the driver's MIR JSON.

For every root (the four ABI entry points) it enumerates every control path of the
pre-borrowck MIR with crate-local functions and closures inlined (context-sensitive), carrying
 * a term store: place -> origin term (hash-consed Python tuples),
 * guard facts: (predicate term, outcome) pairs taken at SwitchInt,
 * an effect trace: storage operations; the Response under construction is itself a term.
No solver is involved; feasibility is decided only by syntactic fact re-use and constant folding.
The result is one list of path summaries ("exits") per root, consumed by the rule layer.
"""
import json, sys, re, pickle, time, os

# ------------------------------------------------------------------ terms
def C(v): return ('c', v)
UNIT = ('c', '()')
TRUE = ('c', True)
FALSE = ('c', False)
def is_const(t): return t[0] == 'c'
def SOME(x): return ('adt', 'std::option::Option', 'Some', (('0', x),))
NONE = ('adt', 'std::option::Option', 'None', ())
def OK(x): return ('adt', 'std::result::Result', 'Ok', (('0', x),))
def ERR(x): return ('adt', 'std::result::Result', 'Err', (('0', x),))

def mk_not(p):
    if p[0] == 'not': return p[1]
    if p[0] == 'c' and isinstance(p[1], bool): return C(not p[1])
    return ('not', p)

def mk_eq(a, b):
    if a == b: return TRUE
    if a[0] == 'c' and b[0] == 'c': return C(a[1] == b[1])
    if a[0] == 'adt' and b[0] == 'adt' and not a[3] and not b[3] and a[1] == b[1]:
        return C(a[2] == b[2])
    # Option / Result are compared structurally: different constructors are unequal, equal constructors compare their payload
    if a[0] == 'adt' and b[0] == 'adt' and a[1] == b[1] and a[1] in ('std::option::Option', 'std::result::Result'):
        if a[2] != b[2]: return FALSE
        if len(a[3]) == 1 and len(b[3]) == 1: return mk_eq(a[3][0][1], b[3][0][1])
        if not a[3] and not b[3]: return TRUE
    if repr(a) > repr(b): a, b = b, a
    return ('eq', a, b)

def get_step(t, step):
    k = t[0]
    if step[0] == 'f':
        name = step[1]
        if k == 'adt':
            for n, v in t[3]:
                if n == name: return v
            return ('f', t, name)
        if k == 'tup':
            try: return t[1][int(name)]
            except Exception: return ('f', t, name)
        if k == 'closure':
            for n, v in t[2]:
                if n == name: return v
            return ('f', t, name)
        if k == 'upd':
            for s, v in t[2]:
                if s == step: return v
            return get_step(t[1], step)
        return ('f', t, name)
    if step[0] == 'v':
        _, variant, name = step
        if k == 'adt':
            if t[2] == variant:
                for n, v in t[3]:
                    if n == name: return v
            return ('v', t, variant, name)
        if k == 'upd':
            for s, v in t[2]:
                if s == step: return v
            return get_step(t[1], step)
        return ('v', t, variant, name)
    if step[0] == 'idx':
        if k == 'arr' and step[1][0] == 'c':
            try: return t[1][int(step[1][1])]
            except Exception: pass
        return ('idx', t, step[1])
    raise Exception('bad step %r' % (step,))

def set_step(t, step, v):
    k = t[0]
    if step[0] == 'f' and k == 'adt':
        fs = tuple((n, (v if n == step[1] else x)) for n, x in t[3])
        if any(n == step[1] for n, _ in t[3]):
            return ('adt', t[1], t[2], fs)
    if step[0] == 'f' and k == 'tup':
        try:
            i = int(step[1]); l = list(t[1]); l[i] = v; return ('tup', tuple(l))
        except Exception: pass
    if step[0] == 'v' and k == 'adt' and t[2] == step[1]:
        if any(n == step[2] for n, _ in t[3]):
            fs = tuple((n, (v if n == step[2] else x)) for n, x in t[3])
            return ('adt', t[1], t[2], fs)
    if k == 'upd':
        ups = tuple((s, x) for s, x in t[2] if s != step) + ((step, v),)
        return ('upd', t[1], tuple(sorted(ups, key=repr)))
    return ('upd', t, ((step, v),))

def get_path(t, path):
    for s in path: t = get_step(t, s)
    return t

def set_path(t, path, v):
    if not path: return v
    sub = get_step(t, path[0])
    return set_step(t, path[0], set_path(sub, path[1:], v))

UNDEF = ('undef',)

def known_variant(t):
    """variant name when the constructor of an enum-valued term is known on its face"""
    while True:
        k = t[0]
        if k == 'named': t = t[2]; continue
        if k == 'adt': return t[2]
        if k == 'upd':
            for s, _ in t[2]:
                if s[0] == 'v': return s[1]
            return None
        return None

def discr_base(t):
    """the term whose discriminant decides t's variant (struct-field updates do not change it)"""
    while True:
        if t[0] == 'named': t = t[2]; continue
        if t[0] == 'upd' and all(s[0] != 'v' for s, _ in t[2]): t = t[1]; continue
        return t

# ------------------------------------------------------------------ program
class Program:
    def __init__(self, facts):
        self.raw = facts
        self.bodies = {}
        for b in facts['bodies']:
            self.bodies.setdefault(b['def'], b)   # `_` consts collide; irrelevant
        self.adts = {a['def']: a for a in facts['adts']}
        self.impls = {}   # impl_trait string -> {method name: body}
        for b in facts['bodies']:
            it = b.get('impl_trait')
            if it:
                self.impls.setdefault(it, {})[b['def'].rsplit('::', 1)[-1]] = b
        self.const_cache = {}
        self._loopheads = {}

    def loop_heads(self, body):
        d = body['def']
        if d in self._loopheads: return self._loopheads[d]
        blocks = body['blocks']
        succ = []
        for bb in blocks:
            t = bb['t']; k = t['k']
            if k == 'goto': s = [t['t']]
            elif k == 'switch': s = [x[1] for x in t['targets']] + [t['otherwise']]
            elif k in ('call', 'assert'): s = [t['t']] if t['t'] is not None else []
            else: s = []
            succ.append(s)
        heads = set(); color = {}
        stack = [(0, iter(succ[0]))]; color[0] = 1
        while stack:
            n, it = stack[-1]
            adv = False
            for m in it:
                if color.get(m, 0) == 0:
                    color[m] = 1; stack.append((m, iter(succ[m]))); adv = True; break
                elif color[m] == 1:
                    heads.add(m)
            if not adv:
                color[n] = 2; stack.pop()
        self._loopheads[d] = heads
        return heads

def parse_const(o):
    txt = o['txt']; ty = o['ty']
    if txt.startswith('const '): txt = txt[6:]
    if ty == 'bool': return C(txt == 'true')
    if ty in ('()',): return UNIT
    m = re.match(r'^(-?\d+)_?([iu](8|16|32|64|128|size))?$', txt)
    if m: return C(int(m.group(1)))
    if txt.startswith('"') and txt.endswith('"') and ty in ('&str', "&'static str"):
        try: return C(json.loads(txt))
        except Exception: return C(txt[1:-1])
    if ty == 'char': return C(txt)
    return ('konst', txt, ty)

# ------------------------------------------------------------------ state
class St:
    __slots__ = ('mem', 'facts', 'known', 'effects', 'wver', 'stack', 'iters', 'nfork', 'order', 'ors')
    def __init__(self):
        self.mem = {}; self.facts = []; self.known = {}; self.effects = []
        self.wver = (); self.stack = (); self.iters = 0; self.nfork = 0; self.order = (); self.ors = ()
    def copy(self):
        s = St.__new__(St)
        s.mem = dict(self.mem); s.facts = list(self.facts); s.known = dict(self.known)
        s.effects = list(self.effects); s.wver = self.wver; s.stack = self.stack
        s.iters = self.iters; s.nfork = self.nfork; s.order = self.order; s.ors = self.ors
        return s

    def contradicted(self, g):
        k = g[0]
        if k in ('is', 'isnot'):
            kn = self.known.get(('d', g[1]))
            if kn is None: return False
            if k == 'is': return (kn[0] == 'is' and kn[1] != g[2]) or (kn[0] == 'isnot' and g[2] in kn[1])
            return kn[0] == 'is' and kn[1] in g[2]
        if k in ('val', 'nval'):
            kn = self.known.get(('v', g[1]))
            if kn is None: return False
            if k == 'val': return (kn[0] == 'val' and kn[1] != g[2]) or (kn[0] == 'nval' and g[2] in kn[1])
            return kn[0] == 'val' and kn[1] in g[2]
        return False

    def or_feasible(self):
        """False when some disjunctive fact (merged outcomes of a boolean helper) has every alternative contradicted by what the path knows"""
        for alts in self.ors:
            if all(any(self.contradicted(g) for g in alt) for alt in alts): return False
        return True
    # facts: ('is', t, variant) / ('val', t, v) / ('nval', t, vals) / ('or', alternatives)
    def add_fact(self, f, site):
        self.facts.append((f, site, self.stack))
        k = f[0]
        of = order_fact(f)
        if of is not None: self.order = self.order + (of,)
        if k == 'or': self.ors = self.ors + (f[1],)
        if k == 'is': self.known[('d', f[1])] = ('is', f[2])
        elif k == 'isnot':
            old = self.known.get(('d', f[1]))
            ex = set(f[2]) | (set(old[1]) if old and old[0] == 'isnot' else set())
            self.known[('d', f[1])] = ('isnot', tuple(sorted(ex)))
        elif k == 'val': self.known[('v', f[1])] = ('val', f[2])
        elif k == 'nval':
            old = self.known.get(('v', f[1]))
            ex = set(f[2]) | (set(old[1]) if old and old[0] == 'nval' else set())
            self.known[('v', f[1])] = ('nval', tuple(sorted(ex, key=repr)))

def order_fact(f):
    """facts about eq / lt / cmp of two terms, as (rel, a, b) with rel in eq ne lt ge"""
    if f[0] == 'val' and f[1][0] == 'eq' and isinstance(f[2], bool):
        return ('eq' if f[2] else 'ne', f[1][1], f[1][2])
    if f[0] == 'val' and f[1][0] == 'lt' and isinstance(f[2], bool):
        return ('lt' if f[2] else 'ge', f[1][1], f[1][2])
    if f[0] == 'is' and f[1][0] == 'ordcmp':
        a, b = f[1][1], f[1][2]
        return {'Less': ('lt', a, b), 'Equal': ('eq', a, b), 'Greater': ('lt', b, a)}.get(f[2])
    if f[0] == 'isnot' and f[1][0] == 'ordcmp' and len(f[2]) == 2:
        rest = [v for v in ('Less', 'Equal', 'Greater') if v not in f[2]]
        if len(rest) == 1: return order_fact(('is', f[1], rest[0]))
    return None

def order_consistent(order, new):
    """finite check: is there a weak ordering of the terms related to `new` satisfying all order facts?
    Sound pruning only: returns True whenever the component is too large to enumerate."""
    comp = {new[1], new[2]}
    facts = [new]
    changed = True
    rest = list(order)
    while changed:
        changed = False
        for of in list(rest):
            # constants do not connect facts: join only through a shared non-constant term
            if (of[1][0] != 'c' and of[1] in comp) or (of[2][0] != 'c' and of[2] in comp):
                comp.add(of[1]); comp.add(of[2]); facts.append(of); rest.remove(of); changed = True
    if len(facts) < 2: return True
    terms = sorted(comp, key=repr)
    n = len(terms)
    if n > 5: return True
    idx = {t: i for i, t in enumerate(terms)}
    consts = [(i, t[1]) for t, i in idx.items() if t[0] == 'c' and isinstance(t[1], int) and not isinstance(t[1], bool)]
    import itertools
    for ranks in itertools.product(range(n), repeat=n):
        ok = True
        for (i, a) in consts:
            for (j, b) in consts:
                if i < j and ((a < b) != (ranks[i] < ranks[j]) or (a == b) != (ranks[i] == ranks[j])): ok = False
        if not ok: continue
        for rel, a, b in facts:
            ra, rb = ranks[idx[a]], ranks[idx[b]]
            if rel == 'eq' and ra != rb: ok = False; break
            if rel == 'ne' and ra == rb: ok = False; break
            if rel == 'lt' and not ra < rb: ok = False; break
            if rel == 'ge' and not ra >= rb: ok = False; break
        if ok: return True
    return False

def frame_refs(t, uid, out=None, depth=0):
    """cells (uid, local) of frame `uid` referenced from term t"""
    if out is None: out = set()
    if not isinstance(t, tuple) or depth > 60: return out
    if len(t) == 2 and t[0] == 'ref' and isinstance(t[1], tuple) and len(t[1]) == 3 and t[1][0] == uid:
        out.add((t[1][0], t[1][1])); return out
    for x in t:
        if isinstance(x, tuple): frame_refs(x, uid, out, depth + 1)
    return out

class Frame:
    __slots__ = ('uid', 'body', 'subst', 'loops')
    def __init__(self, uid, body, subst):
        self.uid = uid; self.body = body; self.subst = subst; self.loops = {}

class PathEnd(Exception): pass

LOOP_UNROLL = 2

# ------------------------------------------------------------------ interpreter
class Interp:
    def __init__(self, prog, budget=12000000):
        self.p = prog
        self.uid = 0
        self.exits = []        # abort/unreachable exits gathered during a root run
        self.steps = 0
        self.budget = budget
        self.budget_limit = budget
        self.budget_hit = False
        self.abort_agg = {}
        self.unmodelled = {}
        self.inlined = {}
        self.merge_bool = True
        self.pruned_order = 0
        self.fnitems = {}
        self.aggregate_aborts = True

    # ---- helpers
    def new_uid(self):
        self.uid += 1; return self.uid

    def subst_ty(self, ty, subst):
        if not subst: return ty
        def rep(m):
            w = m.group(0)
            return subst.get(w, w)
        return re.sub(r'[A-Za-z_][A-Za-z0-9_]*', rep, ty)

    def resolve_place(self, st, fr, pl):
        uid, local, path = fr.uid, pl['l'], []
        pending_variant = None
        for e in pl['p']:
            k = e['k']
            if k == 'deref':
                t = get_path(st.mem.get((uid, local), UNDEF), tuple(path))
                if t[0] == 'ref':
                    uid, local, p2 = t[1]; path = list(p2)
                # opaque deref: stay on the same place (references erased)
            elif k == 'field':
                if pending_variant is not None:
                    path.append(('v', pending_variant, e['n'])); pending_variant = None
                else:
                    path.append(('f', e['n']))
            elif k == 'downcast':
                pending_variant = e['v']
            elif k == 'index':
                path.append(('idx', st.mem.get((fr.uid, e['l']), UNDEF)))
            elif k == 'cindex':
                path.append(('idx', C(e['o'])))
            else:
                path.append(('f', '<' + k + '>'))
        return (uid, local, tuple(path))

    def read_addr(self, st, addr):
        return get_path(st.mem.get((addr[0], addr[1]), UNDEF), addr[2])

    def write_addr(self, st, addr, v):
        key = (addr[0], addr[1])
        if not addr[2]: st.mem[key] = v
        else: st.mem[key] = set_path(st.mem.get(key, UNDEF), addr[2], v)

    def read_place(self, st, fr, pl):
        if not pl['p']: return st.mem.get((fr.uid, pl['l']), UNDEF)
        return self.read_addr(st, self.resolve_place(st, fr, pl))

    def deref(self, st, t):
        n = 0
        while t[0] == 'ref' and n < 8:
            t = self.read_addr(st, t[1]); n += 1
        return t

    def konst_value(self, st, fr, o):
        if 'fn' in o:
            # function items are values (e.g. `.map(str::to_ascii_lowercase)`): keep the term hashable, the resolved callee in a side table
            fn = o['fn']; key = '%s<%s>' % ((fn.get('res') or fn)['def'], ','.join(map(str, (fn.get('res') or fn).get('args', []))))
            self.fnitems[key] = fn
            return ('fnitem', key)
        if 'uneval' in o and o.get('uneval_local') and 'promoted' not in o:
            return self.eval_named_const(o['uneval'])
        if 'promoted' in o:
            return ('promoted', o.get('uneval'), o['promoted'])
        return parse_const(o)

    def eval_named_const(self, name):
        cc = self.p.const_cache
        if name in cc: return cc[name]
        body = self.p.bodies.get(name)
        if body is None:
            cc[name] = ('konst', name, '?'); return cc[name]
        cc[name] = ('konst', name, 'rec')
        st = St()
        outs = self.run_body(st, body, [], {}, 'const')
        v = outs[0][1] if outs else ('konst', name, '?')
        v = ('named', name, v)
        cc[name] = v
        return v

    def operand(self, st, fr, o):
        k = o['k']
        if k in ('copy', 'move'): return self.read_place(st, fr, o['pl'])
        if k == 'const': return self.konst_value(st, fr, o)
        return ('opaque_operand', o.get('txt', ''))

    def rvalue(self, st, fr, r):
        k = r['k']
        if k == 'use': return self.operand(st, fr, r['op'])
        if k in ('ref', 'rawptr'): return ('ref', self.resolve_place(st, fr, r['pl']))
        if k == 'cast':
            v = self.operand(st, fr, r['op'])
            ck = r['ck']
            if ck.startswith('PointerCoercion') or ck in ('Transmute', 'PtrToPtr'): return v
            if v[0] == 'c' and isinstance(v[1], int) and not isinstance(v[1], bool): return v
            return ('cast', v, r['ty'])
        if k == 'binop':
            a = self.operand(st, fr, r['a']); b = self.operand(st, fr, r['b']); op = r['op']
            if op == 'Eq': return mk_eq(a, b)
            if op == 'Ne': return mk_not(mk_eq(a, b))
            if op == 'Lt': return ('lt', a, b)
            if op == 'Gt': return ('lt', b, a)
            if op == 'Le': return mk_not(('lt', b, a))
            if op == 'Ge': return mk_not(('lt', a, b))
            if op.endswith('WithOverflow'):
                base = op[:-len('WithOverflow')]
                return ('tup', (('bin', base, a, b), ('ovf', base, a, b)))
            return ('bin', op, a, b)
        if k == 'unop':
            a = self.operand(st, fr, r['a'])
            if r['op'] == 'Not': return mk_not(a)
            if r['op'] == 'PtrMetadata':
                # length of a slice (slice patterns `[] =>`, `[x] =>`): a vector / array whose elements are all known has a known length
                v = self.deref(st, a)
                w = v[2] if (v and v[0] == 'named') else v
                if w and w[0] in ('vec', 'arr'): return ('c', len(w[1]))
                return ('len', v)
            return ('un', r['op'], a)
        if k == 'discr':
            v = self.read_place(st, fr, r['pl'])
            v = discr_base(self.deref(st, v))
            kv = known_variant(v)
            if kv is not None:
                for val, name in r['variants']:
                    if name == kv: return C(int(val))
            return ('discr', v, tuple((int(a), b) for a, b in r['variants']))
        if k == 'aggregate':
            ops = [self.operand(st, fr, o) for o in r['ops']]
            ak = r['ak']
            if ak == 'adt': return ('adt', r['adt'], r['variant'], tuple(zip(r['fields'], ops)))
            if ak == 'tuple': return ('tup', tuple(ops)) if ops else UNIT
            if ak == 'closure': return ('closure', r['def'], tuple(zip(r['caps'], ops)))
            if ak == 'array': return ('arr', tuple(ops))
            return ('agg', ak, tuple(ops))
        if k == 'repeat': return ('repeat', self.operand(st, fr, r['op']), r['n'])
        return ('rv_other', r.get('txt', ''))

    # ---- exits
    def record_exit(self, st, kind, site, detail=None, ret=None):
        if kind in ('abort', 'unreachable') and self.aggregate_aborts:
            dk = detail[0] if isinstance(detail, tuple) and detail else detail
            key = (kind, site, tuple(x[1] for x in st.stack), dk)
            fs = set(f[0] for f in st.facts)
            a = self.abort_agg.get(key)
            if a is None:
                self.abort_agg[key] = {'kind': kind, 'site': site, 'stack': st.stack, 'detail': detail, 'count': 1,
                                       'common': fs, 'first_facts': list(st.facts), 'had_effects': bool(st.effects),
                                       'writes_before': [e for e in st.effects if e[0] in ('save', 'remove')]}
            else:
                a['count'] += 1; a['common'] &= fs
                if st.effects: a['had_effects'] = True
            return
        self.exits.append({'kind': kind, 'site': site, 'detail': detail, 'ret': ret,
                           'facts': list(st.facts), 'effects': list(st.effects), 'stack': st.stack})

    # ---- branching on a switch operand
    def branch(self, st, t, targets, otherwise, site, ty=None):
        """returns list of (state, block)"""
        if t[0] == 'named': t = t[2]
        if t[0] == 'c':
            v = t[1]
            if isinstance(v, bool): v = 1 if v else 0
            for val, bb in targets:
                if int(val) == v: return [(st, bb)]
            return [(st, otherwise)]
        neg = False
        base = t
        if t[0] == 'not': neg = True; base = t[1]
        if base[0] == 'discr':
            x = base[1]; variants = dict(base[2])
            kn = st.known.get(('d', x))
            tv = [(int(val), bb) for val, bb in targets]
            if kn and kn[0] == 'is':
                for val, bb in tv:
                    if variants.get(val) == kn[1]: return [(st, bb)]
                return [(st, otherwise)]
            excluded = set(kn[1]) if kn else set()
            outs = []
            covered = set()
            for val, bb in tv:
                name = variants.get(val, str(val)); covered.add(name)
                if name in excluded: continue
                outs.append((bb, ('is', x, name)))
            rest = [n for n in variants.values() if n not in covered and n not in excluded]
            if rest or not variants:
                if len(rest) == 1: outs.append((otherwise, ('is', x, rest[0])))
                else: outs.append((otherwise, ('isnot', x, tuple(sorted(covered)))))
            return self.fork(st, outs, site)
        # boolean / integer predicate
        is_bool = (ty == 'bool')
        kn = st.known.get(('v', base))
        tv = []
        for val, bb in targets:
            v = int(val)
            if is_bool:
                v = bool(v)
                if neg: v = not v
            tv.append((v, bb))
        if kn and kn[0] == 'val':
            for v, bb in tv:
                if v == kn[1]: return [(st, bb)]
            return [(st, otherwise)]
        excluded = set(kn[1]) if kn else set()
        outs = []
        for v, bb in tv:
            if v in excluded: continue
            outs.append((bb, ('val', base, v)))
        if is_bool:
            have = set(v for v, _ in tv)
            rest = [b for b in (True, False) if b not in have and b not in excluded]
            for b in rest: outs.append((otherwise, ('val', base, b)))
        else:
            outs.append((otherwise, ('nval', base, tuple(v for v, _ in tv))))
        return self.fork(st, outs, site)

    def fork(self, st, outs, site):
        res = []
        if st.order:
            kept = []
            for bb, fact in outs:
                of = order_fact(fact)
                if of is not None and not order_consistent(st.order, of):
                    self.pruned_order += 1; continue
                kept.append((bb, fact))
            outs = kept
            if not outs: raise PathEnd()
        n = len(outs)
        for i, (bb, fact) in enumerate(outs):
            s = st if i == n - 1 else st.copy()
            s.add_fact(fact, site); s.nfork += 1
            if s.ors and not s.or_feasible(): continue
            res.append((s, bb))
        if not res: raise PathEnd()
        return res

    def fork_variants(self, st, x, names, site):
        """fork on the variant of enum-valued term x; returns [(state, variant)]"""
        x0 = discr_base(x)
        kv = known_variant(x0)
        if kv is not None: return [(st, kv)]
        kn = st.known.get(('d', x0))
        if kn and kn[0] == 'is': return [(st, kn[1])]
        excluded = set(kn[1]) if kn else set()
        cand = [n for n in names if n not in excluded]
        res = []
        for i, nme in enumerate(cand):
            s = st if i == len(cand) - 1 else st.copy()
            s.add_fact(('is', x0, nme), site); s.nfork += 1
            if s.ors and not s.or_feasible(): continue
            res.append((s, nme))
        if not res: raise PathEnd()
        return res

    # ---- running a body
    def run_body(self, st, body, args, subst, callsite):
        """returns list of (state, return term)"""
        fr = Frame(self.new_uid(), body, subst)
        for i, a in enumerate(args): st.mem[(fr.uid, i + 1)] = a
        old_stack = st.stack
        st.stack = old_stack + ((body['def'], callsite),)
        results = []
        work = [(st, 0, {})]
        blocks = body['blocks']
        heads = self.p.loop_heads(body)
        while work:
            s, bi, loops = work.pop()
            try:
                while True:
                    self.steps += 1
                    if self.steps > self.budget_limit:
                        self.budget_hit = True; raise PathEnd()
                    if bi in heads:
                        c = loops.get(bi, 0)
                        if c > LOOP_UNROLL: raise PathEnd()
                        loops = dict(loops); loops[bi] = c + 1
                    bb = blocks[bi]
                    for stmt in bb['s']:
                        if stmt['k'] == 'assign':
                            v = self.rvalue(s, fr, stmt['rv'])
                            pl = stmt['pl']
                            if not pl['p']: s.mem[(fr.uid, pl['l'])] = v
                            else: self.write_addr(s, self.resolve_place(s, fr, pl), v)
                    t = bb['t']; k = t['k']
                    if k == 'goto': bi = t['t']; continue
                    if k == 'return':
                        rv = s.mem.get((fr.uid, 0), UNIT)
                        results.append((s, rv)); break
                    if k == 'switch':
                        v = self.operand(s, fr, t['op'])
                        outs = self.branch(s, v, t['targets'], t['otherwise'], t['sp'], t['ty'])
                        for s2, b2 in outs[:-1]: work.append((s2, b2, loops))
                        s, bi = outs[-1]; continue
                    if k == 'call':
                        outs = self.call(s, fr, t)
                        if t['t'] is None:
                            for s2, _ in outs: self.record_exit(s2, 'abort', t['sp'], 'diverging call')
                            break
                        if not outs: break
                        for s2, rv in outs:
                            self.write_addr(s2, self.resolve_place(s2, fr, t['dest']), rv)
                        for s2, _ in outs[:-1]: work.append((s2, t['t'], loops))
                        s = outs[-1][0]; bi = t['t']; continue
                    if k == 'assert':
                        c = self.operand(s, fr, t['cond'])
                        # failure = abort exit (recorded once per site without forking the state)
                        if not (c[0] == 'c'):
                            self.record_exit(s, 'abort', t['sp'], ('assert', t['msg'], c, t['expected']))
                        elif bool(c[1]) != bool(t['expected']):
                            self.record_exit(s, 'abort', t['sp'], ('assert', t['msg'], c, t['expected'])); break
                        bi = t['t']; continue
                    if k == 'unreachable':
                        self.record_exit(s, 'unreachable', t.get('sp')); break
                    if k == 'unwind': break
                    self.record_exit(s, 'abort', None, ('otherterm', t.get('txt'))); break
            except PathEnd:
                pass
        # pop frame
        for s, rv in results:
            s.stack = old_stack
            # a returned reference into this frame (a borrowed view modelled as a value copy, e.g. `&*id.as_bytes()`) keeps its cell alive
            keep = set(); todo = [rv]
            while todo:
                for cell in frame_refs(todo.pop(), fr.uid):
                    if cell not in keep:
                        keep.add(cell); todo.append(s.mem.get(cell, UNDEF))
            dead = [key for key in s.mem if key[0] == fr.uid and key not in keep]
            for key in dead: del s.mem[key]
        return results

    # ---- calls
    def call(self, st, fr, t):
        f = t['f']
        args = [self.operand(st, fr, a) for a in t['args']]
        site = t['sp']
        if 'fn' not in f:
            fv = self.operand(st, fr, f)
            return self.apply_callable(st, fv, args, site)
        fn = f['fn']
        return self.call_fn(st, fn, args, t['argtys'], site, fr.subst, t.get('dest_ty'), fr)

    def call_fn(self, st, fn, args, argtys, site, subst, dest_ty=None, frame=None):
        res = fn.get('res')
        name = res['def'] if res else fn['def']
        targs = tuple(self.subst_ty(a, subst) for a in (res['args'] if res else fn['args']))
        info = {'name': name, 'targs': targs, 'fn': fn, 'site': site, 'argtys': argtys,
                'trait': fn.get('trait'), 'orig': fn['def'], 'dest_ty': dest_ty, 'frame': frame,
                'self_ty': self.subst_ty(fn.get('self_ty', ''), subst)}
        import models
        m = models.lookup(self, info)
        if m is not None:
            r = m(self, st, args, info)
            if r is not None:
                return r if isinstance(r, list) else [(st, r)]
        local = res['local'] if res else fn['local']
        body = self.p.bodies.get(name) if local else None
        if body is not None and body['kind'] in ('Fn', 'AssocFn') and body.get('blocks'):
            return self.inline(st, body, args, targs, site)
        # a trait method called on a type parameter inside a generic body (e.g. the provided method of a trait calling a required
        # one): resolved now that the caller's substitution makes the receiver type concrete
        if res is None and fn.get('trait') and info['self_ty']:
            impl = self.p.impls.get('<%s as %s>' % (info['self_ty'].lstrip('&'), fn['trait']))
            b2 = impl.get(fn.get('name') or fn['def'].rsplit('::', 1)[-1]) if impl else None
            if b2 is not None and b2.get('blocks'):
                return self.inline(st, b2, args, targs[1:] if targs and targs[0] == info['self_ty'] else targs, site)
        return [(st, self.opaque_call(st, info, args))]

    def inline(self, st, body, args, targs, site):
        if len(st.stack) > 48 or sum(1 for d, _ in st.stack if d == body['def']) > 2:
            # recursion (none in this crate today) or runaway nesting: the analysis is incomplete -> fail closed via budget_hit
            self.budget_hit = True
            raise PathEnd()
        sub = dict(zip(body.get('generics', []), targs)) if body.get('generics') else {}
        self.inlined[body['def']] = self.inlined.get(body['def'], 0) + 1
        ret_ty = body['locals'][0]['ty']
        if self.merge_bool and ret_ty == 'bool':
            pre = st.copy()
            nf = len(st.facts); ne = len(st.effects)
            outs = self.run_body(st, body, args, sub, site)
            if len(outs) > 1 and all(len(s.effects) == ne for s, r in outs):
                groups = {}
                for s, r in outs: groups.setdefault(r, []).append(s)
                merged = []
                for r, ss in groups.items():
                    if len(ss) == 1: merged.append((ss[0], r)); continue
                    alts = tuple(tuple(fc[0] for fc in s.facts[nf:]) for s in ss)
                    m = pre.copy()
                    m.add_fact(('or', alts, body['def']), site)
                    merged.append((m, r))
                return merged
            return outs
        return self.run_body(st, body, args, sub, site)

    def apply_callable(self, st, fv, args, site):
        """call a closure / fn item value with already-evaluated args"""
        fv = self.deref(st, fv)
        if fv[0] == 'closure':
            body = self.p.bodies.get(fv[1])
            if body is not None:
                return self.run_body(st, body, [fv] + list(args), {}, site)
        if fv[0] == 'fnitem':
            fn = self.fnitems[fv[1]]
            return self.call_fn(st, fn, list(args), [''] * len(args), site, {})
        return [(st, ('call', 'apply', (), (fv,) + tuple(args)))]

    def snapshot(self, st, t, site=None):
        """value of an argument handed to an opaque callee: references resolved; closures summarised"""
        t = self.deref(st, t)
        if t[0] == 'named': t = t[2]
        if t[0] == 'closure':
            caps = tuple((n, self.snapshot(st, v, site)) for n, v in t[2])
            body = self.p.bodies.get(t[1])
            outcomes = ()
            if body is not None:
                s2 = st.copy(); nf = len(s2.facts)
                old_agg = self.aggregate_aborts; self.aggregate_aborts = False
                nargs = max(0, body['arg_count'] - 1)
                bound = [('bound', t[1], i) for i in range(nargs)]
                saved = self.exits; self.exits = []
                try:
                    outs = self.run_body(s2, body, [t] + bound, {}, site or 'closure')
                finally:
                    aborted = self.exits; self.exits = saved; self.aggregate_aborts = old_agg
                outcomes = tuple((tuple(f[0] for f in s3.facts[nf:]), self.deep_snapshot(s3, r, site)) for s3, r in outs)
                # a closure that is only summarised (handed to an unmodelled higher-order callee such as for_each / try_for_each / map)
                # but whose body writes storage: the writes would otherwise vanish from the path's effect trace
                ne = len(st.effects); hidden = {}
                for s3, _ in outs:
                    for e in s3.effects[ne:]:
                        if e[0] in ('save', 'remove', 'opaque_mut_call'): hidden[(e[0], e[1])] = e
                for (op, ns), e in sorted(hidden.items(), key=repr):
                    st.effects.append(('opaque_mut_call', '%s inside closure %s' % (op, t[1]), None, 'storage %s of "%s" in a closure passed to an unmodelled callee' % (op, ns), None, e[5], st.stack, len(st.facts)))
                outcomes = outcomes + tuple((tuple(f[0] for f in e['facts'][nf:]), ('abort', e['detail'])) for e in aborted)
            return ('lambda', t[1], caps, outcomes)
        if t[0] == 'tup':
            return ('tup', tuple(self.snapshot(st, x, site) for x in t[1]))
        return t

    def deep_snapshot(self, st, t, site=None, depth=0):
        """snapshot that also resolves references held inside constructor / tuple / vector payloads (a closure returning `Some(&x.f)`)"""
        t = self.snapshot(st, t, site)
        if depth > 6: return t
        if t[0] == 'adt': return ('adt', t[1], t[2], tuple((n, self.deep_snapshot(st, v, site, depth + 1)) for n, v in t[3]))
        if t[0] == 'tup': return ('tup', tuple(self.deep_snapshot(st, x, site, depth + 1) for x in t[1]))
        if t[0] == 'vec': return ('vec', tuple(self.deep_snapshot(st, x, site, depth + 1) for x in t[1]))
        return t

    def opaque_call(self, st, info, args):
        name = info['name']
        self.unmodelled[name] = self.unmodelled.get(name, 0) + 1
        vals = []
        for a, ty in zip(args, info['argtys'] + [''] * len(args)):
            vals.append(self.snapshot(st, a, info['site']))
        term = ('call', name, info['targs'], tuple(vals))
        for a, ty in zip(args, info['argtys'] + [''] * len(args)):
            if ('Storage' in ty and ty.startswith('&mut ')) or 'DepsMut' in ty:
                # an unmodelled callee that can mutate through its argument: recorded so that rules can refuse to trust it
                st.effects.append(('opaque_mut_call', name, None, ty, None, info['site'], st.stack, len(st.facts)))
            if ty.startswith('&mut ') and a[0] == 'ref':
                self.write_addr(st, a[1], ('mutated', term, self.read_addr(st, a[1])))
        return term

    # ---- roots
    def run_root(self, name, params):
        body = self.p.bodies[name]
        self.exits = []
        self.abort_agg = {}
        self.steps_root0 = self.steps
        self.budget_limit = self.steps + self.budget
        st = St()
        args = [('sym', p) for p in params]
        t0 = time.time()
        outs = self.run_body(st, body, args, {}, 'root')
        exits = self.exits
        for s, rv in outs:
            kind = 'ret'
            r0 = rv
            if r0[0] == 'adt' and r0[1] == 'std::result::Result':
                kind = 'ok' if r0[2] == 'Ok' else 'err'
            exits.append({'kind': kind, 'site': None, 'detail': None, 'ret': rv,
                          'facts': s.facts, 'effects': s.effects, 'stack': ()})
        return {'root': name, 'params': params, 'exits': exits, 'aborts': list(self.abort_agg.values()),
                'wall': time.time() - t0, 'steps': self.steps - self.steps_root0}


ROOTS = {
    'contract::instantiate': ['deps', 'env', 'info', 'msg'],
    'contract::execute': ['deps', 'env', 'info', 'msg'],
    'contract::query': ['deps', 'env', 'msg'],
    'contract::migrate': ['deps', 'env', 'msg'],
}

def find_roots(prog):
    """the four CosmWasm ABI entry points: public free functions named instantiate/execute/query/migrate"""
    roots = {}
    for sig in prog.raw['misc']['fn_sigs']:
        last = sig['def'].rsplit('::', 1)[-1]
        if last in ('instantiate', 'execute', 'query', 'migrate') and sig['pub']:
            ins = sig['inputs']
            if not ins or not (ins[0].startswith('cosmwasm_std::Deps')): continue
            if last in ('instantiate', 'execute'): params = ['deps', 'env', 'info', 'msg']
            else: params = ['deps', 'env', 'msg']
            if len(params) != len(ins): continue
            roots.setdefault(last, []).append((sig['def'], params, sig))
    return roots

def serde_tables(prog):
    """what the derived serde impls do, read from their MIR (the resolved program, not attribute text):
    unit-variant names written by Serialize; fields for which Deserialize reports `missing_field` (i.e. required fields)"""
    out = {'unit_variant_names': {}, 'required_fields': {}, 'struct_field_names': {}}
    for b in prog.raw['bodies']:
        d = b['def']
        m = re.search(r'Serialize for (.+)>::serialize$', d)
        m2 = re.search(r"Deserialize<'de> for (.+)>::deserialize::__Visitor<'de> as .*Visitor<'de>>::visit_map$", d)
        if not (m or m2): continue
        for bb in b['blocks']:
            t = bb['t']
            if t['k'] != 'call' or 'fn' not in t['f']: continue
            fname = t['f']['fn']['def']
            consts = [parse_const(a) for a in t['args'] if a['k'] == 'const' and 'fn' not in a]
            strs = [c[1] for c in consts if c[0] == 'c' and isinstance(c[1], str)]
            ints = [c[1] for c in consts if c[0] == 'c' and isinstance(c[1], int) and not isinstance(c[1], bool)]
            if m and fname.endswith('serialize_unit_variant') and len(strs) == 2 and ints:
                out['unit_variant_names'].setdefault(m.group(1), {})[ints[0]] = strs[1]
            if m and fname.endswith('serialize_field') and strs:
                out['struct_field_names'].setdefault(m.group(1), []).append(strs[0])
            if m2 and fname.endswith('missing_field') and strs:
                out['required_fields'].setdefault(m2.group(1), []).append(strs[0])
    return out

def wire_tables(prog):
    """wire identifiers of the derived serde impls, read from their MIR: for every type, the strings its Deserialize field/variant
    visitors accept (`__FieldVisitor::visit_str`: string -> __fieldN), outermost visitor first then the per-variant visitors in
    definition order; and the keys / variant names its Serialize impl writes."""
    out = {'accepts': {}, 'writes': {}}
    for b in prog.raw['bodies']:
        d = b['def']
        m = re.search(r"Deserialize<'de> for (.+?)>::deserialize(::.*)?::__FieldVisitor as .*Visitor<'de>>::visit_str$", d)
        if m:
            blocks = b['blocks']; got = {}
            for bb in blocks:
                t = bb['t']
                if t['k'] != 'call' or 'fn' not in t['f'] or not t['f']['fn']['def'].endswith('PartialEq::eq'): continue
                strs = [parse_const(a) for a in t['args'] if a['k'] == 'const' and 'fn' not in a]
                strs = [c[1] for c in strs if c[0] == 'c' and isinstance(c[1], str)]
                if len(strs) != 1 or t.get('t') is None: continue
                nb = blocks[t['t']]['t']; cur = None
                if nb['k'] == 'switch': cur = nb['otherwise']
                fld = None; hops = 0
                while cur is not None and hops < 6 and fld is None:
                    for st_ in blocks[cur]['s']:
                        rv = st_.get('rv') if st_['k'] == 'assign' else None
                        if rv and rv.get('k') == 'aggregate' and str(rv.get('variant', '')).startswith('__field'): fld = rv['variant']
                    tt = blocks[cur]['t']; cur = tt['t'] if tt['k'] == 'goto' else None; hops += 1
                got.setdefault(fld, []).append(strs[0])
            def idx(k):
                mm = re.match(r'__field(\d+)$', k or ''); return int(mm.group(1)) if mm else 10 ** 6
            names = [sorted(got[k]) for k in sorted(got, key=idx)]
            out['accepts'].setdefault(m.group(1), []).append({'nested': d.count('visit_enum'), 'names': [n[0] if len(n) == 1 else n for n in names]})
        m = re.search(r'Serialize for (.+)>::serialize$', d)
        if m:
            w = out['writes'].setdefault(m.group(1), {'keys': [], 'variants': []})
            for bb in b['blocks']:
                t = bb['t']
                if t['k'] != 'call' or 'fn' not in t['f']: continue
                fname = t['f']['fn']['def']
                consts = [parse_const(a) for a in t['args'] if a['k'] == 'const' and 'fn' not in a]
                strs = [c[1] for c in consts if c[0] == 'c' and isinstance(c[1], str)]
                if fname.endswith('::serialize_field') and strs: w['keys'].append(strs[0])
                elif re.search(r'::serialize_(unit|struct|newtype|tuple)_variant$', fname) and len(strs) >= 2: w['variants'].append(strs[1])
            w['keys'].sort(); w['variants'].sort()
    return out

def callsite_inventory(prog):
    """every call site in hand-written (non-derive) bodies: (callee, resolved callee, caller, span, constant args as text)"""
    out = []
    for b in prog.raw['bodies']:
        d = b['def']
        if '::_::' in d or d.startswith('tests::') or any(x in d for x in ('as std::fmt::Debug', 'as std::clone::Clone>', 'as std::cmp::PartialEq>', 'std::fmt::Display', 'std::error::Error')): continue
        for bb in b['blocks']:
            t = bb['t']
            if t['k'] != 'call' or 'fn' not in t['f']: continue
            fn = t['f']['fn']; res = fn.get('res')
            consts = [a.get('txt') for a in t['args'] if a['k'] == 'const' and 'fn' not in a]
            out.append({'callee': fn['def'], 'resolved': res['def'] if res else None, 'caller': d, 'span': t['sp'], 'consts': consts, 'from_expansion': t.get('exp', False)})
    return out

def analyse(facts_path, out_path=None, verbose=False, merge_bool=True):
    facts = json.load(open(facts_path))
    prog = Program(facts)
    it = Interp(prog, budget=12000000 if merge_bool else 60000000)
    it.merge_bool = merge_bool
    roots = find_roots(prog)
    result = {'roots': {}, 'nonce': facts.get('nonce'), 'unmodelled': None, 'steps': 0,
              'misc': facts['misc'], 'adts': facts['adts'], 'entry': {}}
    for kind, lst in sorted(roots.items()):
        for name, params, sig in lst:
            r = it.run_root(name, params)
            r['sig'] = sig
            result['roots'][kind] = r
            result['entry'][kind] = name
            if verbose:
                ks = {}
                for e in r['exits']: ks[e['kind']] = ks.get(e['kind'], 0) + 1
                print('root %-12s %-24s exits=%d %s wall=%.1fs steps=%d' % (kind, name, len(r['exits']), ks, r['wall'], it.steps), file=sys.stderr)
    result['serde'] = serde_tables(prog)
    result['wire'] = wire_tables(prog)
    result['callsites'] = callsite_inventory(prog)
    result['unmodelled'] = it.unmodelled
    result['inlined'] = it.inlined
    result['steps'] = it.steps
    result['budget_hit'] = it.budget_hit
    result['consts'] = dict(it.p.const_cache)
    if out_path:
        with open(out_path, 'wb') as f: pickle.dump(result, f, protocol=4)
    return result

if __name__ == '__main__':
    sys.path.insert(0, os.path.dirname(os.path.abspath(__file__)))
    sys.setrecursionlimit(10000)
    r = analyse(sys.argv[1], sys.argv[2] if len(sys.argv) > 2 else None, verbose=True)
    print('unmodelled opaque callees:', file=sys.stderr)
    for k, v in sorted(r['unmodelled'].items()): print('  %4d %s' % (v, k), file=sys.stderr)
