"""Linear-equality domain for amounts (DESIGN §4 R-inv / R-cons, Appendix C): polynomial normal form with
 * invariant eliminations assumed on every record loaded from storage
     I2  Ready ask:  converted_base.amount  := size
     I4  bid:        accumulated_quote      := quote.amount - dec(price) * (base.amount - accumulated_base)
     I7  bid w/ fee: accumulated_fee        := fee.amount - round0(fee.amount * (quote.amount - accumulated_quote) / quote.amount)
 * path equalities (facts `a == b` = True over numeric terms), solved for one atom (Gaussian elimination step)
 * lemmas L-zero / L-unit / L-int as simplifications of the div / round atoms.
It is an abstract domain, not a solver: only rewriting to normal form and syntactic comparison."""
from engine import *
import fractions

def is_intlike_atom(a):
    if isinstance(a, tuple) and a and a[0] == 'polyatom':
        if a[1] == 'round': return True
        return False
    if isinstance(a, tuple) and a and a[0] == 'dec': return False
    return True

def simp_atom(kind, args):
    """simplify a div/round/rem/pow atom whose arguments are Polys; returns Poly"""
    if kind == 'div':
        n, d = args
        if n.is_zero(): return Poly()                      # L-zero
        if n == d: return Poly.const(1)                    # L-unit
        return Poly.atom(('polyatom', 'div', (n, d)))
    if kind == 'round':
        x, mode = args
        if x.is_zero(): return Poly()
        if all(is_intlike_atom(a) for a in x.atoms()) and all(v.denominator == 1 for v in x.m.values()):
            return x                                       # rounding an integer is the identity
        return Poly.atom(('polyatom', 'round', (x, mode)))
    return Poly.atom(('polyatom', kind, tuple(args)))

class Dom:
    def __init__(self, p=None, use=('I2', 'I4', 'I7', 'path', 'uns')):
        self.sub = []          # ordered list of (atom, Poly-term-builder) eliminations: atom -> semantic term
        self.use = use
        self.cache = {}
        self.solved = []       # (atom, Poly) from path equalities
        self.notes = []
        self.inv_sub = {}
        self.p = p
        self._final = False    # path equalities are solved lazily, after the invariant eliminations have been declared

    def finalize(self):
        if self._final: return
        self._final = True
        self.cache = {}
        if self.p is not None and 'path' in self.use:
            self.add_path_equalities(self.p)
        if self.p is not None and 'uns' in self.use:
            # L-uns: amounts are unsigned, so not (0 < x) implies x == 0
            for x, sg in self.p.signs():
                if sg == 'zero' and isinstance(x, tuple) and numericish(x): self.add_equality(x, I(0))

    # --- invariant eliminations for the records seen on this path
    def assume_bid(self, BID, has_fee=None):
        if 'I4' in self.use:
            Q = F(BID, 'quote', 'amount'); aQ = F(BID, 'accumulated_quote'); B = F(BID, 'base', 'amount'); aB = F(BID, 'accumulated_base')
            Pb = DEC(F(BID, 'price'))
            self.inv_sub[aQ] = SUB(Q, MUL(Pb, SUB(B, aB)))
            self.notes.append('I4 on %s' % K(BID))
        if 'I7' in self.use and has_fee:
            Ft = F(SOMEV(F(BID, 'fee')), 'amount'); aF = F(BID, 'accumulated_fee'); Q = F(BID, 'quote', 'amount'); aQ = F(BID, 'accumulated_quote')
            self.inv_sub[aF] = SUB(Ft, ROUND0(MUL(Ft, DIV(SUB(Q, aQ), Q))))
            self.notes.append('I7 on %s' % K(BID))
        self.cache = {}
        if self._final: self._final = False; self.solved = []

    def assume_ready_ask(self, ASK):
        if 'I2' in self.use:
            cb = F(V(V(F(ASK, 'class'), 'Convertible', 'status'), 'Ready', 'converted_base'), 'amount')
            self.inv_sub[cb] = F(ASK, 'size')
            self.notes.append('I2 on %s' % K(ASK))
        self.cache = {}
        if self._final: self._final = False; self.solved = []

    # --- polynomial with substitution
    def poly(self, t, depth=0):
        if not self._final: self.finalize()
        key = t
        r = self.cache.get(key)
        if r is not None: return r
        r = self._poly(t, depth)
        self.cache[key] = r
        return r

    def _poly(self, t, depth):
        if depth > 40: return Poly.atom(t)
        k = t[0]
        if k == 'int': return Poly.const(t[1])
        if k == 'add': return self.poly(t[1], depth) + self.poly(t[2], depth)
        if k == 'sub': return self.poly(t[1], depth) - self.poly(t[2], depth)
        if k == 'mul': return self.poly(t[1], depth) * self.poly(t[2], depth)
        if k == 'div': r = simp_atom('div', (self.poly(t[1], depth), self.poly(t[2], depth)))
        elif k == 'round': r = simp_atom('round', (self.poly(t[1], depth), (t[2], t[3])))
        elif k in ('rem', 'pow'): r = simp_atom(k, (self.poly(t[1], depth), self.poly(t[2], depth)))
        else:
            if t in self.inv_sub: return self.poly(self.inv_sub[t], depth + 1)
            r = Poly.atom(t)
        # apply solved path equalities (atom -> Poly), to fixpoint
        return self.apply_solved(r)

    def apply_solved(self, pol):
        if not self.solved: return pol
        for _ in range(8):
            changed = False
            for atom, repl in self.solved:
                if atom in pol.atoms():
                    pol = subst_atom(pol, atom, repl); changed = True
            if not changed: break
        return pol

    def add_path_equalities(self, p):
        for f, _, _ in p.facts:
            if f[0] == 'val' and f[2] is True and f[1][0] == 'eq':
                a, b = f[1][1], f[1][2]
                if not (numericish(a) and numericish(b)): continue
                self.add_equality(a, b)
            elif f[0] == 'is' and f[2] == 'Equal' and f[1][0] == 'ordcmp':
                self.add_equality(f[1][1], f[1][2])
        # equalities the order facts imply without stating them (a <= b, m == a, m >= b  ==>  a == b)
        for a, b in p.implied_equalities():
            if numericish(a) and numericish(b): self.add_equality(a, b)

    def add_equality(self, a, b):
        if not self._final:
            self.finalize()
        d = self.poly(a) - self.poly(b)
        if d.is_zero() or d.is_const(): return
        # choose an atom occurring only in one linear monomial with coefficient +-1
        cands = []
        for mono, c in d.m.items():
            if len(mono) == 1 and abs(c) == 1:
                atom = mono[0]
                if sum(1 for m2 in d.m if atom in m2) == 1 and not inside_atoms(d, atom):
                    cands.append((atom, c))
        if not cands: return
        def pref(ac):
            a = ac[0]
            s = repr(a)
            return (0 if "'msg'" in s else 1, 0 if (isinstance(a, tuple) and a and a[0] == 'dec') else 1, len(s))
        cands.sort(key=pref)
        atom, c = cands[0]
        rest = Poly({m: v for m, v in d.m.items() if m != (atom,)})
        repl = -rest if c == 1 else rest
        self.solved.append((atom, repl))
        self.cache = {}

    def eq(self, a, b): return self.poly(a) == self.poly(b)
    def is_zero(self, a): return self.poly(a).is_zero()
    def show(self, a): return repr(self.poly(a))

def numericish(t):
    return t[0] in ('add', 'sub', 'mul', 'div', 'int', 'round', 'dec', 'f', 'v', 'msg', 'rem')

def inside_atoms(pol, atom):
    for a in pol.atoms():
        if isinstance(a, tuple) and a and a[0] == 'polyatom':
            for x in a[2]:
                if isinstance(x, Poly) and (atom in x.atoms() or inside_atoms(x, atom)): return True
    return False

def subst_atom(pol, atom, repl):
    out = Poly()
    for mono, c in pol.m.items():
        term = Poly.const(c)
        for a in mono:
            if a == atom: term = term * repl
            elif isinstance(a, tuple) and a and a[0] == 'polyatom':
                args = tuple(subst_atom(x, atom, repl) if isinstance(x, Poly) else x for x in a[2])
                term = term * simp_atom(a[1], args)
            else: term = term * Poly.atom(a)
        out = out + term
    return out

# ------------------------------------------------------------------ spec builders for a bid
class BidSpec:
    def __init__(self, BID):
        self.BID = BID
        self.B = F(BID, 'base', 'amount'); self.aB = F(BID, 'accumulated_base')
        self.Q = F(BID, 'quote', 'amount'); self.aQ = F(BID, 'accumulated_quote')
        self.FEE = F(BID, 'fee'); self.Ft = F(SOMEV(self.FEE), 'amount'); self.aF = F(BID, 'accumulated_fee')
        self.P = DEC(F(BID, 'price'))
        self.remB = SUB(self.B, self.aB); self.remQ = SUB(self.Q, self.aQ); self.remF = SUB(self.Ft, self.aF)
        self.qdenom = F(BID, 'quote', 'denom'); self.fdenom = F(SOMEV(self.FEE), 'denom'); self.owner = F(BID, 'owner')
    def ERF(self, x): return ROUND0(MUL(DIV(x, self.Q), self.Ft))
    def bidfee(self, g): return SUB(self.remF, self.ERF(SUB(self.remQ, g)))

def transfers(p):
    out = []
    for m in p.messages:
        tr = transfer_of(m) if m['kind'] == 'msg' else None
        if tr is None or 'bad' in tr: out.append({'bad': True, 'term': m['term'], 'site': m['site']}); continue
        tr['site'] = m['site']; tr['call_site'] = m['stack'][-1][1] if m['stack'] else m['site']; tr['fpos'] = m['fpos']
        out.append(tr)
    return out

def match_multiset(dom, eqv, actual, expected):
    """actual/expected: lists of (denom, amount, to). Returns (unmatched_actual, unmatched_expected)."""
    exp = list(expected); ua = []
    for d, a, to in actual:
        hit = None
        for i, (ed, ea, eto) in enumerate(exp):
            if eto == to and (ed == d or eqv.same(ed, d)) and dom.eq(ea, a): hit = i; break
        if hit is None: ua.append((d, a, to))
        else: exp.pop(hit)
    return ua, exp

def written_record(p, ns):
    """the record written (save) or retired (remove, in-memory candidate) under namespace ns on this path: (op, key, value term) list"""
    out = []
    for w in p.writes:
        if w['ns'] != ns: continue
        if w['op'] == 'save': out.append(('save', w['key'], w['val'], w))
        elif w['op'] == 'remove':
            val = None
            v = w['val']
            if v and v[0] == 'tup':
                cands = [c for c in v[1] if c[0] == 'upd']
                val = cands[0] if cands else (v[1][0] if v[1] else None)
            out.append(('remove', w['key'], val, w))
    return out

def upd_fields(rec, base):
    """rec = base `with` {field: value}: returns dict field-name -> new value (top-level struct fields only), or None if rec is not derived from base"""
    if rec == base: return {}
    if rec is None: return None
    if rec[0] == 'upd' and rec[1] == base:
        d = {}
        for s, v in rec[2]:
            if s[0] != 'f': return None
            d[s[1]] = v
        return d
    return None


def has_dec(t):
    if isinstance(t, tuple):
        if t and t[0] == 'dec': return True
        if t and t[0] == 'div': return True
        return any(has_dec(x) for x in t)
    return False

def integral_evidence(p, X):
    """why the Decimal X is a whole number on path p (side condition of erasing to_u128, lemma L-int); None if nothing shows it"""
    if X[0] == 'round' and X[2] == I(0): return 'rounded to 0 decimal places'
    if not has_dec(X): return 'built from integers only'
    if p.holds(EQ(('fract', X), I(0)), True) is not None: return 'guard fract(x) == 0'
    if X[0] in ('sub', 'add'):
        a = integral_evidence(p, X[1]); b = integral_evidence(p, X[2])
        if a and b: return 'difference/sum of whole numbers'
    return None

def check_exact_conversions(eng, PROP, p):
    """every Decimal -> integer conversion whose result is used on a successful path converts a whole number (to_u128 truncates silently)"""
    n = 0
    for f, site, _ in p.facts:
        if f[0] == 'is' and f[2] == 'Some' and f[1][0] == 'rcall' and f[1][1] == 'to_u128':
            X = f[1][2][0]
            why = integral_evidence(p, X)
            n += 1
            eng.ob(why is not None, PROP, 'exact-conversion', '%s:%s' % (p.variant, K(X)[:120]),
                   '%s: %s is converted to an integer with to_u128 (which truncates) on a path that does not establish it is a whole number' % (p.variant, K(X)[:160]), where=site, detail=p.describe(12),
                   sample={'rule': 'exact-conversion', 'request': p.variant, 'value': K(X)[:100], 'evidence': why})
    return n
