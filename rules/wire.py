"""R-wire: the wire (JSON) identifiers of the records kept in storage are part of the contract's ABI with its own past and
future versions: orders written by an earlier version must still decode, and what this version writes a later one must read.
The identifiers are read from the MIR of the derived serde impls (what the deserializer's field/variant visitors accept and what
the serializer writes), not from attribute text or Rust identifiers, so renaming a Rust field together with a `#[serde(rename)]`
that keeps the wire name is silent, while `rename_all`, `rename`, an alias-less rename of a variant, or a dropped field is reported.
Records are found by role (the value type stored under a namespace), not by type name."""
import re
from engine import *

# the frozen wire schema (confirmed by reading the types on the pinned tree; a struct is {key: sub-schema or None},
# an enum is {'|Variant': None (unit) or {key: ...}})
ASK = {'id': None, 'owner': None, 'base': None, 'quote': None, 'price': None, 'size': None,
       'class': {'|Basic': None, '|Convertible': {'status': {'|PendingIssuerApproval': None, '|Ready': {'approver': None, 'converted_base': None}}}}}
BID = {'id': None, 'owner': None, 'base': None, 'quote': None, 'price': None, 'fee': None,
       'accumulated_base': None, 'accumulated_quote': None, 'accumulated_fee': None}
BID_OLD = {'id': None, 'owner': None, 'base': None, 'quote': None, 'price': None, 'fee': None,
           'events': {'block_info': {'height': None, 'time': None},
                      'action': {'|Fill': {'base': None, 'fee': None, 'price': None, 'quote': None},
                                 '|Refund': {'fee': None, 'quote': None},
                                 '|Reject': {'base': None, 'fee': None, 'quote': None}}}}
FEE = {'account': None, 'rate': None}
CFG_ = {'name': None, 'bind_name': None, 'base_denom': None, 'convertible_base_denoms': None, 'supported_quote_denoms': None,
        'approvers': None, 'executors': None, 'ask_fee_info': FEE, 'bid_fee_info': FEE, 'ask_required_attributes': None,
        'bid_required_attributes': None, 'price_precision': None, 'size_increment': None}
VER_ = {'definition': None, 'version': None}
SPEC = {'ask': ASK, 'bid': BID, 'bid(old format)': BID_OLD, 'contract_info': CFG_, 'version_info': VER_}

def stored_types(eng):
    """namespace -> {root: set of value types decoded/encoded there}, from the storage effects of all roots"""
    out = {}
    acc = eng.s.get('wire', {}).get('accepts', {})
    for root, r in eng.s['roots'].items():
        for ex in r['exits']:
            for e in ex['effects']:
                res = e[4]
                tys = ()
                if e[0] == 'read' and isinstance(res, tuple) and len(res) > 5 and isinstance(res[5], tuple): tys = res[5]
                elif e[0] == 'read' and isinstance(res, tuple) and res and res[0] == 'srange' and len(res) > 3 and isinstance(res[3], tuple): tys = res[3]
                for ty in tys:
                    if ty in acc: out.setdefault(e[1], {}).setdefault(root, set()).add(ty)
    return out

def schema_of(eng, ty, seen=()):
    """wire schema of a crate-local type as its derived Deserialize accepts it (None for foreign / leaf types)"""
    adts = {a['def']: a for a in eng.s['adts']}
    acc = eng.s.get('wire', {}).get('accepts', {})
    local = [n for n in adts if re.search(r'(^|[<, ])' + re.escape(n) + r'($|[>, ])', ty)]
    if not local: return None
    name = max(local, key=len)
    if name in seen or name not in acc: return None
    a = adts[name]; vis = acc[name]
    top = [v for v in vis if v['nested'] == 0]; nested = [v for v in vis if v['nested'] > 0]
    if len(top) != 1: return {'?': 'no unique field visitor for %s' % name}
    names = top[0]['names']
    def flat(n): return n if isinstance(n, str) else '/'.join(n)
    if not a['is_enum']:
        flds = a['variants'][0]['fields']
        if len(flds) != len(names): return {'?': '%s: %d fields but %d wire keys' % (name, len(flds), len(names))}
        return {flat(n): schema_of(eng, f['ty'], seen + (name,)) for n, f in zip(names, flds)}
    if len(a['variants']) != len(names): return {'?': '%s: %d variants but %d wire names' % (name, len(a['variants']), len(names))}
    out = {}; k = 0
    for n, v in zip(names, a['variants']):
        if not v['fields']: out['|' + flat(n)] = None; continue
        if k >= len(nested): out['|' + flat(n)] = {'?': 'no field visitor'}; continue
        fn = nested[k]['names']; k += 1
        if len(fn) != len(v['fields']): out['|' + flat(n)] = {'?': 'field count'}; continue
        out['|' + flat(n)] = {flat(x): schema_of(eng, f['ty'], seen + (name,)) for x, f in zip(fn, v['fields'])}
    return out

def diff(spec, got, path=''):
    if spec is None: return []          # leaf in the spec: foreign type or not constrained further
    if not isinstance(got, dict): return ['%s: expected a record with keys %s' % (path or '.', sorted(spec))]
    out = []
    for k in spec:
        if k not in got: out.append('%s: wire name %r is no longer accepted (got %s)' % (path or '.', k.lstrip('|'), sorted(x.lstrip('|') for x in got)))
        else: out += diff(spec[k], got[k], path + '.' + k.lstrip('|'))
    for k in got:
        if k not in spec: out.append('%s: wire name %r is not part of the stored format (expected %s)' % (path or '.', k.lstrip('|'), sorted(x.lstrip('|') for x in spec)))
    return out

def writes_agree(eng, ty, seen=None):
    """the Serialize impl of every type in the record writes exactly the identifiers its Deserialize accepts"""
    adts = {a['def']: a for a in eng.s['adts']}
    w = eng.s.get('wire', {}); out = []
    todo = [ty]; seen = set()
    while todo:
        t = todo.pop()
        local = [n for n in adts if re.search(r'(^|[<, ])' + re.escape(n) + r'($|[>, ])', t)]
        for name in local:
            if name in seen: continue
            seen.add(name)
            acc = w.get('accepts', {}).get(name); wr = w.get('writes', {}).get(name)
            if acc is None or wr is None: continue
            a = adts[name]
            top = [v for v in acc if v['nested'] == 0]; nested = [v for v in acc if v['nested'] > 0]
            def fl(ns): return sorted(x for n in ns for x in ([n] if isinstance(n, str) else n))
            if a['is_enum']:
                if not top or sorted(wr['variants']) != fl(top[0]['names']): out.append('%s: variants written %s but accepted %s' % (name, wr['variants'], top[0]['names'] if top else None))
                if sorted(wr['keys']) != sorted(x for v in nested for x in fl(v['names'])): out.append('%s: variant fields written %s but accepted %s' % (name, wr['keys'], [v['names'] for v in nested]))
            else:
                if top and sorted(wr['keys']) != fl(top[0]['names']): out.append('%s: keys written %s but accepted %s' % (name, wr['keys'], top[0]['names']))
            for v in a['variants']:
                for f in v['fields']: todo.append(f['ty'])
    return out, sorted(seen)

def role_type(eng, role):
    """the Rust type decoded under the namespace of `role` (None when not identifiable): the name a type happens to have is not used"""
    st = stored_types(eng)
    ns = 'bid' if role.startswith('bid') else role
    tys = st.get(ns, {})
    ex = set().union(*[v for k, v in tys.items() if k in ('execute', 'query', 'instantiate')]) if tys else set()
    mg = set().union(*[v for k, v in tys.items() if k == 'migrate']) if tys else set()
    cand = (mg - ex) if role == 'bid(old format)' else (ex or mg)
    return next(iter(cand)) if len(cand) == 1 else None

def persisted_types(eng):
    """all crate-local types that make up the stored records (current formats)"""
    out = []
    for role in ('ask', 'bid', 'contract_info', 'version_info'):
        ty = role_type(eng, role)
        if ty is None: continue
        _, types = writes_agree(eng, ty)
        for t in types:
            if t not in out: out.append(t)
    return out

def check_wire(eng, PROP, roles):
    st = stored_types(eng)
    cur = {}
    n = 0
    for role in roles:
        ns = 'bid' if role.startswith('bid') else role
        tys = st.get(ns, {})
        ex = set().union(*[v for k, v in tys.items() if k in ('execute', 'query', 'instantiate')]) if tys else set()
        mg = set().union(*[v for k, v in tys.items() if k == 'migrate']) if tys else set()
        if role == 'bid(old format)': cand = mg - ex
        else: cand = ex or mg
        eng.ob(len(cand) == 1, PROP, 'wire-format', role + ':anchor', 'cannot identify the record type stored under "%s" for role %s (found %s)' % (ns, role, sorted(cand)))
        if len(cand) != 1: continue
        ty = next(iter(cand))
        got = schema_of(eng, ty)
        ds = diff(SPEC[role], got)
        eng.ob(not ds, PROP, 'wire-format', role, 'the stored format of %s (%s) changed, so records written by other versions of the contract no longer decode as themselves: %s' % (role, ty, '; '.join(ds[:4])),
               sample={'rule': 'wire-format', 'role': role, 'type': ty, 'keys': sorted(k.lstrip('|') for k in (got or {}))[:12]})
        wa, types = writes_agree(eng, ty)
        eng.ob(not wa, PROP, 'wire-format', role + ':writer-reader', 'what the serializer writes and the deserializer accepts differ for %s: %s' % (role, '; '.join(wa[:3])))
        n += len(types)
    return n
