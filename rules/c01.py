"""C01 Escrow solvency in its inductive form: exact funds in (R-cons/in), per-step conservation of payouts vs recorded remainders
per denomination (R-cons/out), invariants I1-I7 re-established at every write (R-inv), nothing stranded when an order leaves the book."""
from engine import *
from money import *
from book import remove_iff_zero, record_base, persistence_identity
from invariants import check_I2, check_I4, check_I7, l_uns, ask_state, CB_PATH
from c07 import funds_rule
from c10 import check_I5_established
PROP = 'C01'

def ask_remaining(p, rec_term, val):
    """[(denom, amount)] still owed for an ask record value `val` (val may be the stored term itself)"""
    out = [(nget(val, (('f', 'base'),)), nget(val, (('f', 'size'),)))]
    cls = nget(val, (('f', 'class'),))
    ready = False
    if cls[0] == 'adt':
        st = dict(cls[3]).get('status'); ready = bool(st and st[0] == 'adt' and st[2] == 'Ready')
    else:
        base = record_base(val) or (val if val[0] == 'stored' else None)
        ready = base is not None and ask_state(p, base) == 'Ready'
    if ready:
        out.append((nget(val, CB_PATH + (('f', 'denom'),)), nget(val, CB_PATH + (('f', 'amount'),))))
    return out

def bid_remaining(p, val, has_fee):
    Q = nget(val, (('f', 'quote'), ('f', 'amount'))); aQ = nget(val, (('f', 'accumulated_quote'),))
    out = [(nget(val, (('f', 'quote'), ('f', 'denom'))), SUB(Q, aQ))]
    if has_fee:
        fee = nget(val, (('f', 'fee'),))
        if fee[0] == 'adt' and fee[2] == 'Some': coin = dict(fee[3])['0']; Ft = nget(coin, (('f', 'amount'),)); fd = nget(coin, (('f', 'denom'),))
        else: Ft = F(SOMEV(fee), 'amount'); fd = F(SOMEV(fee), 'denom')
        out.append((fd, SUB(Ft, nget(val, (('f', 'accumulated_fee'),)))))
    return out

def fee_state(p, val, eng=None):
    fee = nget(val, (('f', 'fee'),))
    if fee[0] == 'adt': return fee[2] == 'Some'
    if eng is not None: return fee_presence(eng, PROP, p, fee, 'the bid is settled') == 'Some'
    return p.variant_of(fee) == 'Some'

def conservation(eng, p):
    """per denomination: funds pulled in - payouts == change of the recorded remainders of the orders written on this path"""
    dom = Dom(p); l_uns(dom, p)
    extra_eq = []
    deltas = []      # (denom, new_remaining - old_remaining) as terms
    ok_visible = True
    for ns in ('ask', 'bid'):
        for op, key, val, w in written_record(p, ns):
            base = record_base(val) if val is not None else None
            if val is None and op == 'remove':
                ok_visible = False; continue
            if ns == 'ask':
                if base is not None and ask_state(p, base) is None:
                    ask_class_presence(eng, PROP, p, base, 'the ask is settled')     # reports: conservation cannot be decided without the class
                if base is not None and ask_state(p, base) == 'Ready': dom.assume_ready_ask(base)
                old = ask_remaining(p, base, base) if base is not None else []
                new = ask_remaining(p, base, val) if op == 'save' else []
            else:
                hf = fee_state(p, val, eng)
                if base is not None:
                    dom.assume_bid(base, hf)
                    bs = BidSpec(base)
                    if hf: extra_eq.append((bs.fdenom, bs.qdenom))
                else:
                    if hf:
                        fee = nget(val, (('f', 'fee'),))
                        extra_eq.append((F(SOMEV(fee), 'denom'), nget(val, (('f', 'quote'), ('f', 'denom')))))
                old = bid_remaining(p, base, hf) if base is not None else []
                new = bid_remaining(p, val, hf) if op == 'save' else []
            for d, a in old: deltas.append((d, SUB(I(0), a)))
            for d, a in new: deltas.append((d, a))
    if not ok_visible:
        eng.fail(PROP, 'conservation', p.variant + ':record-visible', '%s: cannot see the record retired by a remove' % p.variant); return
    eqv = Equiv(p, extra_eq)
    trs = transfers(p)
    for t in trs:
        if t.get('bad'):
            eng.fail(PROP, 'no-other-outflow', p.variant, '%s emits a message that is not an accounted transfer: %s' % (p.variant, K(t['term'])[:160]), where=t['site']); return
    flows = []       # (denom, +in / -out)
    for t in trs:
        incoming = (t['mech'] == 'marker' and t['to'] == SELF and t['from'] != SELF)
        flows.append((t['denom'], t['amount'] if incoming else SUB(I(0), t['amount'])))
    # attached funds (bank path of the escrowing requests): FUNDS == coins(x, d) fact
    for f, _, _ in p.facts:
        if f[0] == 'val' and f[2] is True and f[1][0] == 'eq' and FUNDS in f[1][1:]:
            other = f[1][2] if f[1][1] == FUNDS else f[1][1]
            if other[0] == 'coins': flows.append((other[2], other[1]))
    # group by denomination class
    classes = []
    def cls_of(d):
        for c in classes:
            if eqv.same(c[0], d) or c[0] == d: return c
        c = [d, I(0), I(0)]; classes.append(c); return c
    for d, a in flows: c = cls_of(d); c[1] = ADD(c[1], a)
    for d, a in deltas: c = cls_of(d); c[2] = ADD(c[2], a)
    for d, net, delta in classes:
        eng.ob(dom.eq(net, delta), PROP, 'conservation', '%s:%s' % (p.variant, K(d)),
               '%s: in denomination %s the contract\'s holdings change by %s but the recorded remainders of the orders it wrote change by %s (over-payment, stranded funds or unrecorded escrow)' % (p.variant, K(d), dom.show(net), dom.show(delta)),
               where=(p.writes[0]['site'] if p.writes else None), detail=p.describe(16),
               sample={'rule': 'conservation', 'request': p.variant, 'denom': K(d), 'net_flow': dom.show(net)[:160], 'book_delta': dom.show(delta)[:160]})

def run(eng, tier):
    counts = collections.Counter()
    movers = ['CreateAsk', 'CreateBid', 'ApproveAsk', 'CancelAsk', 'CancelBid', 'ExpireAsk', 'ExpireBid', 'RejectAsk', 'RejectBid', 'ExecuteMatch']
    for v in movers:
        oks = eng.paths('execute', 'ok', v)
        eng.ob(len(oks) > 0, PROP, 'floor-ok-path', v, 'no successful path for %s' % v)
        for p in oks:
            counts[v] += 1
            if v in ('CreateAsk', 'CreateBid', 'ApproveAsk'):
                # exact funds in: attached coin or single pull (shared rule), amount/denom of the obligation recorded
                dom = Dom(p)
                if v == 'CreateAsk': funds_rule(eng, p, v, M(v, 'base'), M(v, 'size'), dom, 0, PROP)
                elif v == 'ApproveAsk': funds_rule(eng, p, v, M(v, 'base'), M(v, 'size'), dom, 0, PROP)
                else:
                    total = MUL(DEC(M(v, 'price')), M(v, 'size'))
                    amt = ADD(total, F(SOMEV(M(v, 'fee')), 'amount')) if p.variant_of(M(v, 'fee')) == 'Some' else total
                    funds_rule(eng, p, v, M(v, 'quote'), amt, dom, 0, PROP)
            conservation(eng, p)
            check_exact_conversions(eng, PROP, p)
            remove_iff_zero(eng, PROP, p)
            check_I2(eng, PROP, p); check_I4(eng, PROP, p); check_I7(eng, PROP, p)
    # conservation groups a fresh bid's fee with its quote (same denomination class): that equality must be enforced at admission (I5)
    check_I5_established(eng, PROP)
    # the books are what was written: storage round-trips every field of every persisted record
    persistence_identity(eng, PROP)
    # ModifyContract moves no funds
    for p in eng.paths('execute', 'ok', 'ModifyContract'):
        eng.ob(not p.messages, PROP, 'no-other-outflow', 'ModifyContract', 'a configuration change emits messages')
    return {
        'explanation': 'Inductive form of solvency (DESIGN §5): assuming I1-I7 on every loaded order, each successful abstract path of every fund-moving request satisfies, per denomination class, '
                       '(attached funds + pull-ins - payouts) == (sum of recorded remainders of the orders it wrote, after) - (before), where an order that is removed counts as remainder 0 -- so payouts never exceed and never fall short of what the books release, and nothing is stranded at removal; '
                       'the three escrowing requests demand exactly the recorded obligation (attached coin or single pull); I1/I3 (remove iff zero), I2, I4, I7 are re-established at every write. All equalities are decided in the polynomial / linear-equality domain with lemmas L-uns, L-zero, L-unit, L-pos, L-mono. Induction over the history length is the paper argument of DESIGN §5.',
        'inventory': {'ok_paths': dict(counts), 'infeasible_paths_skipped': dict(eng.infeasible)},
        'trusted_base': ['linear domain and lemma table (DESIGN §6)', 'interpreter models', 'chain rollback of refused requests'],
        'not_decided': ['that rust_decimal evaluates the 28-digit pro-rata quotient to the exact unit (numeric precision)', 'chain rollback (assumed)'],
        'assumptions': ['I1-I7 on loaded records (inductive hypothesis); base/convertible/quote denominations kept apart by equality facts only (sums are per denomination class, so coinciding denominations still balance)'],
    }

import probes as _pb
PROBES = [
    _pb.drop_message('execute', 'CancelBid', -1),
    _pb.drop_write('execute', 'ExecuteMatch', 'ask'),
]
