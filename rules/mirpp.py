#!/usr/bin/env python3
"""Pretty-printer for the driver's MIR JSON (debug aid)."""
import json,sys
def pl(p):
    s='_%d'%p['l']
    for e in p['p']:
        k=e['k']
        if k=='deref': s='(*%s)'%s
        elif k=='field': s='%s.%s'%(s,e['n'])
        elif k=='downcast': s='(%s as %s)'%(s,e['v'])
        elif k=='index': s='%s[_%d]'%(s,e['l'])
        else: s='%s.<%s>'%(s,k)
    return s
def op(o):
    k=o['k']
    if k in('copy','move'): return ('move ' if k=='move' else '')+pl(o['pl'])
    if k=='const':
        if 'fn' in o:
            f=o['fn']; r=f.get('res')
            return 'fn[%s%s]'%(f['def'],(' => '+r['def']) if r and r['def']!=f['def'] else '')
        if 'uneval' in o: return 'K[%s]'%o['uneval']
        return o['txt']
    return str(o)
def rv(r):
    k=r['k']
    if k=='use': return op(r['op'])
    if k=='ref': return '&%s%s'%('mut ' if r['mut'] else '',pl(r['pl']))
    if k=='cast': return '%s as %s (%s)'%(op(r['op']),r['ty'],r['ck'])
    if k=='binop': return '%s(%s, %s)'%(r['op'],op(r['a']),op(r['b']))
    if k=='unop': return '%s(%s)'%(r['op'],op(r['a']))
    if k=='discr': return 'discr(%s)'%pl(r['pl'])
    if k=='aggregate':
        ak=r['ak']
        if ak=='adt': return '%s::%s{%s}'%(r['adt'],r['variant'],', '.join('%s: %s'%(f,op(o)) for f,o in zip(r['fields'],r['ops'])))
        if ak=='closure': return 'closure[%s](%s)'%(r['def'],', '.join('%s=%s'%(c,op(o)) for c,o in zip(r['caps'],r['ops'])))
        return '%s(%s)'%(ak,', '.join(op(o) for o in r['ops']))
    return str(r)
def show(b,out=sys.stdout):
    print('fn %s  [%s] args=%d generics=%s'%(b['def'],b['span'],b['arg_count'],b['generics']),file=out)
    for i,l in enumerate(b['locals']): print('  let _%d: %s'%(i,l['ty']),file=out)
    for n,p in b['debug']: print('  debug %s => %s'%(n,pl(p)),file=out)
    for i,bb in enumerate(b['blocks']):
        print(' bb%d:'%i,file=out)
        for s in bb['s']:
            if s['k']=='assign': print('    %s = %s   // %s'%(pl(s['pl']),rv(s['rv']),s['sp']),file=out)
            else: print('    %s'%s,file=out)
        t=bb['t']; k=t['k']
        if k=='goto': print('    goto bb%d'%t['t'],file=out)
        elif k=='switch': print('    switch %s [%s] else bb%d'%(op(t['op']),', '.join('%s→bb%d'%(v,b2) for v,b2 in t['targets']),t['otherwise']),file=out)
        elif k=='call': print('    %s = %s(%s) → bb%s   // %s'%(pl(t['dest']),op(t['f']),', '.join(op(a) for a in t['args']),t['t'],t['sp']),file=out)
        elif k=='assert': print('    assert(%s == %s, %s) → bb%d'%(op(t['cond']),t['expected'],t['msg'],t['t']),file=out)
        else: print('    %s'%k,file=out)
if __name__=='__main__':
    d=json.load(open(sys.argv[1]))
    for b in d['bodies']:
        if any(b['def']==a or (a.endswith('*') and b['def'].startswith(a[:-1])) for a in sys.argv[2:]): show(b)
