"""Term normaliser: interpreter terms -> semantic terms over ABI-stable names (DESIGN §3 'semantic names').

Semantic term forms (tuples):
  ('SENDER',) ('FUNDS',) ('SELF',) ('ENV', path) ('INFO', path) ('DEPS', path)
  ('msg', Variant|None, field)             request field (execute/query: by variant; instantiate/migrate: None)
  ('stored', ns, key, ver)                 record loaded from namespace ns under key (None for items)
  ('f', t, name) / ('v', t, Variant, name) field / variant payload of a semantic term
  ('dec', s)                               Decimal parsed from string s (payload of Ok)
  ('int', n) / ('str', s) / ('bool', b) / ('unit',)
  ('add'|'sub'|'mul'|'div'|'rem'|'pow', a, b), ('round0', d), ('fract', d), ('tostr', t)
  ('call', shortname, args) for everything else
Amount casts (Uint128<->u128, u128->Decimal, to_u128 of an integral Decimal) are erased.
"""
import re

def short(name):
    name = re.sub(r"<'a, [A-Z, ]+>|<'a, K, T>|<'a, T>|<T, A>|<T, E>|<T>|<'_>", '', name)
    return name

ERASE_CALLS = {
    'conv',
}

def _subst(t, a, b):
    if t == a: return b
    if isinstance(t, tuple): return tuple(_subst(x, a, b) for x in t)
    return t

class Norm:
    def __init__(self, root_kind):
        self.root_kind = root_kind
        self.cache = {}

    def __call__(self, t):
        try:
            r = self.cache.get(t)
        except TypeError:
            r = None
        if r is not None: return r
        r = self._n(t)
        self.cache[t] = r
        return r

    def _n(self, t):
        k = t[0]
        N = self
        if k == 'c':
            v = t[1]
            if isinstance(v, bool): return ('bool', v)
            if isinstance(v, int): return ('int', v)
            if v == '()': return ('unit',)
            return ('str', v)
        if k == 'named': return N(t[2])
        if k == 'sym':
            return {'info': ('INFO',), 'env': ('ENV',), 'deps': ('DEPS',), 'msg': ('MSG',)}.get(t[1], ('sym', t[1]))
        if k == 'f':
            b = N(t[1]); name = t[2]
            return self.field(b, name)
        if k == 'v':
            b = N(t[1]); variant, name = t[2], t[3]
            if b == ('MSG',): return ('msg', variant, name)
            if b[0] == 'sload':
                # payload of a storage read: Ok(record) for load; Ok(Some(record)) for may_load
                if variant == 'Ok' and b[3] == 'load': return ('stored', b[1], b[2], b[4])
                if variant == 'Ok': return ('mayload_opt', b[1], b[2], b[4])
                return ('v', b, variant, name)
            if b[0] == 'mayload_opt' and variant == 'Some': return ('stored', b[1], b[2], b[3])
            if b[0] == 'rcall' and variant in ('Ok', 'Some'):
                return self.payload(b)
            # map fusion: element i of collect(map(X, f)) is f(element i of collect(X)) when f is a single-outcome pure closure
            if variant == 'Some' and name == '0' and b[0] == 'iternext' and b[1][0] == 'iter' and b[1][1][0] == 'collect':
                src = b[1][1][1]
                if src[0] == 'call' and src[1].endswith('Iterator::map') and len(src[2]) == 2 and src[2][1][0] == 'lambda' and len(src[2][1][3]) == 1 and not src[2][1][3][0][0]:
                    lam = src[2][1]; ret = lam[3][0][1]
                    if ret[0] != 'abort':
                        return self.renorm(_subst(ret, ('bound', lam[1], 0), self._elem(src[2][0], b[2])))
            return ('v', b, variant, name)
        if k == 'sload':
            key = N(t[2]) if t[2] is not None else None
            return ('sload', t[1] if isinstance(t[1], str) else N(t[1]), key, t[3], t[4])
        if k == 'adt':
            r = ('adt', t[1], t[2], tuple((n, N(v)) for n, v in t[3]))
            # the CosmosMsg envelope written out by hand: CosmosMsg::Bank(m) is the message m (what Response::add_message builds anyway)
            if t[1].startswith('cosmwasm_std::CosmosMsg') and t[2] == 'Bank' and len(r[3]) == 1 and r[3][0][1][0] == 'adt' and r[3][0][1][1].endswith('BankMsg'): return r[3][0][1]
            return r
        if k == 'tup': return ('tup', tuple(N(x) for x in t[1]))
        if k == 'vec':
            xs = tuple(N(x) for x in t[1])
            # vec![Coin { denom, amount }] / vec![coin(a, d)] is coins(a, d)
            if len(xs) == 1 and xs[0][0] == 'adt' and xs[0][1] == 'cosmwasm_std::Coin':
                d = dict(xs[0][3])
                if set(d) == {'denom', 'amount'}: return ('coins', d['amount'], d['denom'])
            return ('vec', xs)
        if k == 'arr': return ('vec', tuple(N(x) for x in t[1]))
        if k == 'upd':
            return ('upd', N(t[1]), tuple((s, N(v)) for s, v in t[2]))
        if k == 'cast':
            # widening / same-width integer casts are value-preserving and erased; a cast to a narrower integer type truncates
            ty = t[2]
            if ty in ('u8', 'u16', 'u32', 'u64', 'usize', 'i8', 'i16', 'i32', 'i64', 'isize', 'f32', 'f64'):
                inner = N(t[1])
                if inner[0] == 'int': return inner
                return ('trunc', inner, ty)
            return N(t[1])
        if k == 'bin':
            op = {'Add': 'add', 'Sub': 'sub', 'Mul': 'mul', 'Div': 'div', 'Rem': 'rem'}.get(t[1], t[1])
            return (op, N(t[2]), N(t[3]))
        if k == 'un': return ('un', t[1], N(t[2]))
        if k == 'not': return ('not', N(t[1]))
        if k == 'eq':
            a, b = N(t[1]), N(t[2])
            # x.len() == 0  is  x.is_empty()
            if a == ('int', 0) and b[0] == 'len': return ('is_empty', b[1])
            if b == ('int', 0) and a[0] == 'len': return ('is_empty', a[1])
            if repr(a) > repr(b): a, b = b, a
            return ('eq', a, b)
        if k == 'lt':
            a, b = N(t[1]), N(t[2])
            # 0 < x.len()  is  !x.is_empty();  x.len() < 1  is  x.is_empty()
            if a == ('int', 0) and b[0] == 'len': return ('not', ('is_empty', b[1]))
            if b == ('int', 1) and a[0] == 'len': return ('is_empty', a[1])
            return ('lt', a, b)
        if k == 'ordcmp': return ('ordcmp', N(t[1]), N(t[2]))
        if k == 'discr': return ('discr', N(t[1]))
        if k == 'len': return ('len', N(t[1]))
        if k == 'call': return self.call(t)
        if k == 'lambda':
            return ('lambda', t[1], tuple((n, N(v)) for n, v in t[2]),
                    tuple((tuple(self.fact(f) for f in fs), N(r) if r[0] != 'abort' else ('abort',)) for fs, r in t[3]))
        if k == 'bound': return t
        if k == 'iter': return ('iter', N(t[1]))
        if k == 'iterpos': return ('iter', N(t[1]))
        if k == 'iternext': return ('iternext', N(t[1]), t[2])
        if k == 'resp':
            return ('resp', tuple(('rmsg', N(m[1])) for m in t[1] if m[0] in ('msg', 'submsg') and isinstance(m[1], tuple)),
                    tuple(('rattr', N(a[1]), N(a[2]) if a[2] is not None else None) for a in t[2] if a[0] == 'attr'))
        if k == 'errmap': return ('errmap',)
        if k == 'errfn': return ('errfn',)
        if k == 'closure': return ('closure', t[1], tuple((n, N(v)) for n, v in t[2]))
        if k == 'fnitem': return ('fnitem', t[1] if isinstance(t[1], str) else t[1]['def'])
        if k == 'sres': return ('sres',) + tuple(t[1:])
        if k == 'srange': return ('srange', t[1], t[2])
        if k == 'mutated': return ('mutated', N(t[1]), N(t[2]))
        if k == 'pushed': return ('pushed', N(t[1]), N(t[2]))
        if k == 'ref': return ('ref?',)
        if k == 'idx': return ('idx', N(t[1]), N(t[2]))
        return t

    def _elem(self, src, i):
        # normalised element i of collect(src) (src already normalised)
        b = ('iternext', ('iter', ('collect', src)), i)
        if src[0] == 'call' and src[1].endswith('Iterator::map') and len(src[2]) == 2 and src[2][1][0] == 'lambda' and len(src[2][1][3]) == 1 and not src[2][1][3][0][0] and src[2][1][3][0][1][0] != 'abort':
            lam = src[2][1]
            return self.renorm(_subst(lam[3][0][1], ('bound', lam[1], 0), self._elem(src[2][0], i)))
        return ('v', b, 'Some', '0')

    def renorm(self, t):
        # re-simplify an already normalised term after a substitution: field / variant projections of constructors and tuples
        if not isinstance(t, tuple) or not t: return t
        if t[0] == 'f' and len(t) == 3: return self.field(self.renorm(t[1]), t[2])
        if t[0] == 'v' and len(t) == 4:
            b = self.renorm(t[1])
            if b[0] == 'adt' and b[2] == t[2]:
                for n, v in b[3]:
                    if n == t[3]: return v
            return ('v', b, t[2], t[3])
        return tuple(self.renorm(x) if isinstance(x, tuple) else x for x in t)

    def field(self, b, name):
        if b == ('INFO',):
            if name == 'sender': return ('SENDER',)
            if name == 'funds': return ('FUNDS',)
        if b == ('ENV',) and name == 'contract': return ('ENV', 'contract')
        if b == ('ENV', 'contract') and name == 'address': return ('SELF',)
        if b == ('MSG',): return ('msg', None, name)
        if b[0] == 'upd':
            for s, v in b[2]:
                if s == ('f', name): return v
            return self.field(b[1], name)
        if b[0] == 'adt':
            for n, v in b[3]:
                if n == name: return v
        if b[0] == 'tup' and isinstance(name, str) and name.isdigit() and int(name) < len(b[1]): return b[1][int(name)]
        return ('f', b, name)

    def payload(self, b):
        # b = ('rcall', kind, args): success payload of a fallible library call
        kind = b[1]; a = b[2]
        if kind == 'from_str': return ('dec', a[0])
        if kind == 'checked_mul': return ('mul', a[0], a[1])
        if kind == 'checked_sub': return ('sub', a[0], a[1])
        if kind == 'checked_add': return ('add', a[0], a[1])
        if kind == 'checked_div': return ('div', a[0], a[1])
        if kind == 'to_u128': return a[0]          # L-int: callers guard fract==0 or round0 (checked by rules)
        if kind == 'from_u128': return a[0]
        return ('ok', b)

    RC = {
        '<rust_decimal::Decimal as std::str::FromStr>::from_str': 'from_str',
        'rust_decimal::arithmetic_impls::<impl rust_decimal::Decimal>::checked_mul': 'checked_mul',
        'rust_decimal::arithmetic_impls::<impl rust_decimal::Decimal>::checked_sub': 'checked_sub',
        'rust_decimal::arithmetic_impls::<impl rust_decimal::Decimal>::checked_add': 'checked_add',
        'rust_decimal::arithmetic_impls::<impl rust_decimal::Decimal>::checked_div': 'checked_div',
        '<rust_decimal::Decimal as rust_decimal::prelude::ToPrimitive>::to_u128': 'to_u128',
        '<rust_decimal::Decimal as rust_decimal::prelude::FromPrimitive>::from_u128': 'from_u128',
        'cosmwasm_std::Uint128::checked_add': 'checked_add',
        'cosmwasm_std::Uint128::checked_sub': 'checked_sub',
        'cosmwasm_std::Uint128::checked_mul': 'checked_mul',
        'cosmwasm_std::Uint128::checked_div': 'checked_div',
    }

    def call(self, t):
        N = self
        name, targs, args = t[1], t[2], t[3]
        a = tuple(N(x) for x in args)
        if name in self.RC: return ('rcall', self.RC[name], a)
        # Decimal::from_str_radix(s, 10) is the same parser as from_str (rust_decimal: both are parse_str_radix_10)
        if name.endswith('Decimal::from_str_radix') and len(a) == 2 and a[1] == ('int', 10): return ('rcall', 'from_str', (a[0],))
        if name == 'conv':
            src, dst = targs
            if dst == 'rust_decimal::Decimal' and src in ('u128', 'i32', 'u64', 'i64', 'u32'): return a[0]
            # wrapping a bank / marker message into the CosmosMsg envelope (what Response::add_message does anyway)
            if dst.startswith('cosmwasm_std::CosmosMsg') and (src.endswith('BankMsg') or src.endswith('MsgTransferRequest')): return a[0]
            return ('call', 'conv:%s->%s' % (src, dst), a)
        if name == 'std::convert::From::from': return ('call', 'from', a)
        if name == '<rust_decimal::Decimal as rust_decimal::prelude::Zero>::zero': return ('int', 0)
        if name == 'cosmwasm_std::Uint128::zero': return ('int', 0)
        if name == 'rust_decimal::Decimal::fract': return ('fract', a[0])
        if name == 'rust_decimal::Decimal::round_dp_with_strategy':
            return ('round', a[0], a[1], a[2])
        if name == 'core::num::<impl u128>::pow': return ('pow', a[0], a[1])
        if name in ('cosmwasm_std::Uint128::is_zero', 'rust_decimal::Decimal::is_zero') or (name.endswith('Zero>::is_zero') and name.startswith('<')) or name.endswith('prelude::Zero::is_zero'):
            x, y = a[0], ('int', 0)
            if repr(x) > repr(y): x, y = y, x
            return ('eq', x, y)
        if name == 'rust_decimal::Decimal::is_sign_negative': return ('is_neg', a[0])
        if name.endswith('::to_string') and 'ToString' in name:
            ty = targs[0] if targs else ''
            ty = ty.lstrip('&')
            if ty in ('cosmwasm_std::Addr', 'std::string::String', 'str'): return a[0]
            return ('tostr', a[0])
        # format!("{}", x): a template with exactly one Display placeholder and no literal text is x.to_string()
        if name == 'std::fmt::format' and len(args) == 1 and args[0][0] == 'call' and args[0][1].startswith('std::fmt::Arguments') and args[0][1].endswith('::new'):
            fa = args[0][3]
            if len(fa) == 2 and fa[0][0] == 'konst' and fa[0][1] in ('b"\\xc0\\x00"',) and fa[1][0] in ('arr', 'vec') and len(fa[1][1]) == 1:
                d = fa[1][1][0]
                if d[0] == 'call' and d[1].endswith('::new_display') and len(d[3]) == 1:
                    ty = (d[2][0] if d[2] else '').lstrip('&')
                    x = N(d[3][0])
                    if ty in ('cosmwasm_std::Addr', 'std::string::String', 'str'): return x
                    return ('tostr', x)
        if name in ('std::cmp::Ord::min', 'std::cmp::min', 'cosmwasm_std::Uint128::min') or name.endswith(' as std::cmp::Ord>::min'):
            x, y = a[0], a[1]
            if repr(x) > repr(y): x, y = y, x
            return ('min', x, y)
        if name == 'cosmwasm_std::coins': return ('coins', a[0], a[1])
        if name == 'cosmwasm_std::coin': return ('adt', 'cosmwasm_std::Coin', 'Coin', (('denom', a[1]), ('amount', a[0])))
        if name == 'cosmwasm_std::Api::addr_validate': return ('rcall', 'addr_validate', a[1:])
        if name == "provwasm_std::types::provenance::marker::v1::MarkerQuerier::<'a, Q>::marker":
            return ('marker_query', a[1])
        if name == "provwasm_std::types::provenance::attribute::v1::AttributeQuerier::<'a, Q>::attributes":
            return ('attr_query', a[1])
        # it.fold(0, |acc, e| acc + e)  is  it.sum()  (both abort on overflow for the unsigned amount types used here)
        if name.endswith('::fold') and 'Iterator' in name and len(a) == 3 and a[1] == ('int', 0) and a[2][0] == 'lambda':
            live = [(fs, r) for fs, r in a[2][3] if r != ('abort',)]
            b0, b1 = ('bound', a[2][1], 0), ('bound', a[2][1], 1)
            if len(live) == 1 and not live[0][0] and live[0][1] in (('add', b0, b1), ('add', b1, b0)):
                return ('call', 'std::iter::Iterator::sum', (a[0],))
        # x.iter().map(|e| e) with an identity closure (as_str / to_string / clone of a string-like element are erased) is x.iter()
        if name.endswith('Iterator::map') and len(a) == 2 and a[0][0] == 'iter' and a[1][0] == 'lambda' and len(a[1][3]) == 1 and not a[1][3][0][0] \
                and a[1][3][0][1] == ('bound', a[1][1], 0):
            return a[0]
        # x.iter().any(|e| e == y)  is  x.contains(&y);  x.iter().all(|e| e != y)  is its negation (closure: one outcome, no branching, no effects)
        if (name.endswith('::any') or name.endswith('::all')) and 'Iterator' in name and len(a) == 2 and a[0][0] == 'iter' and a[1][0] == 'lambda' \
                and len(a[1][3]) == 1 and not a[1][3][0][0]:
            r = a[1][3][0][1]; b = ('bound', a[1][1], 0); neg = False
            if r[0] == 'not': r = r[1]; neg = True
            if r[0] == 'eq' and b in r[1:] and neg == name.endswith('::all'):
                other = r[2] if r[1] == b else r[1]
                if repr(b) not in repr(other):      # may mention an enclosing closure's parameter, not its own
                    c = ('contains', a[0][1], other)
                    return ('not', c) if neg else c
        if name == 'core::slice::<impl [T]>::contains': return ('contains', a[0], a[1])
        if name == 'std::collections::HashSet::<T, S, A>::contains': return ('contains', a[0], a[1])
        if name == 'std::collections::HashSet::<T, S, A>::is_subset': return ('is_subset', a[0], a[1])
        if name == 'is_empty': return ('is_empty', a[0])
        if name == 'storage_is_empty': return ('storage_is_empty', a[0][1], a[1][1])
        if name == 'collect': return ('collect', a[0])
        if name == 'uuid::parser::<impl uuid::Uuid>::parse_str': return ('uuid_parse', a[0])
        if name == 'semver::Version::parse': return ('semver_parse', a[0])
        if name == 'semver::VersionReq::parse': return ('semver_req', a[0])
        if name == 'semver::VersionReq::matches': return ('semver_matches', a[0], a[1])
        return ('call', short(name), a)

    def fact(self, f):
        k = f[0]
        if k == 'is':
            t = self(f[1])
            # `map.range(..).next()` is None / Some on the untouched range of a namespace is the emptiness test of that namespace
            # (outside `migrate`, whose conversion loop walks such ranges element by element)
            if self.root_kind != 'migrate' and t[0] == 'iternext' and t[2] == 0 and t[1][0] == 'srange' and len(t[1]) == 3 and f[2] in ('None', 'Some'):
                return ('val', ('storage_is_empty', t[1][1], t[1][2]), f[2] == 'None')
            return ('is', t, f[2])
        if k == 'isnot': return ('isnot', self(f[1]), f[2])
        if k == 'val':
            t = self(f[1]); v = f[2]
            while t[0] == 'not' and isinstance(v, bool): t = t[1]; v = not v      # a normal form may introduce a negation (all(|e| e != y))
            if t[0] == 'len' and v == 0 and not isinstance(v, bool): return ('val', ('is_empty', t[1]), True)      # slice pattern `[] =>` taken
            return ('val', t, v)
        if k == 'nval':
            t = self(f[1])
            # slice pattern `[] =>` not taken: the length is not 0
            if t[0] == 'len' and tuple(f[2]) == (0,): return ('val', ('is_empty', t[1]), False)
            return ('nval', t, f[2])
        if k == 'or': return ('or', tuple(tuple(self.fact(x) for x in alt) for alt in f[1]), f[2] if len(f) > 2 else None)
        return f

# ------------------------------------------------------------------ pretty printer
def P(t, depth=0):
    try:
        return _P(t, depth)
    except Exception:
        return repr(t)[:200]

def _P(t, depth=0):
    if not isinstance(t, tuple): return repr(t)
    if not t: return '()'
    k = t[0]
    if k == 'int': return str(t[1])
    if k == 'str': return '"%s"' % t[1]
    if k == 'bool': return str(t[1])
    if k == 'unit': return '()'
    if k in ('SENDER', 'FUNDS', 'SELF', 'MSG', 'INFO', 'ENV', 'DEPS'): return k + ('.' + t[1] if len(t) > 1 else '')
    if k == 'msg': return 'msg%s.%s' % (('::' + t[1]) if t[1] else '', t[2])
    if k == 'stored':
        nm = {'ask': 'ASK', 'bid': 'BID', 'contract_info': 'CFG', 'version_info': 'VER'}.get(t[1], 'STORED<%s>' % (t[1],))
        key = '' if t[2] is None else '[%s]' % P(t[2])
        return '%s%s%s' % (nm, key, ('@%d' % t[3]) if t[3] else '')
    if k == 'f': return '%s.%s' % (P(t[1]), t[2])
    if k == 'v': return '(%s as %s).%s' % (P(t[1]), t[2], t[3])
    if k == 'dec': return 'dec(%s)' % P(t[1])
    if k == 'trunc': return '(%s as %s)' % (P(t[1]), t[2])
    if k in ('add', 'sub', 'mul', 'div', 'rem', 'pow'):
        sym = {'add': '+', 'sub': '-', 'mul': '*', 'div': '/', 'rem': '%', 'pow': '^'}[k]
        return '(%s %s %s)' % (P(t[1]), sym, P(t[2]))
    if k == 'round': return 'round(%s, %s, %s)' % (P(t[1]), P(t[2]), P(t[3]))
    if k == 'adt':
        nm = t[1].rsplit('::', 1)[-1]
        if nm != t[2]: nm = nm + '::' + t[2]
        if not t[3]: return nm
        return '%s{%s}' % (nm, ', '.join('%s: %s' % (n, P(v)) for n, v in t[3]))
    if k == 'upd': return '%s with {%s}' % (P(t[1]), ', '.join('%s: %s' % ('.'.join(map(str, s[1:])), P(v)) for s, v in t[2]))
    if k == 'vec': return '[%s]' % ', '.join(P(x) for x in t[1])
    if k == 'tup': return '(%s)' % ', '.join(P(x) for x in t[1])
    if k == 'eq': return '%s == %s' % (P(t[1]), P(t[2]))
    if k == 'lt': return '%s < %s' % (P(t[1]), P(t[2]))
    if k == 'not': return '!(%s)' % P(t[1])
    if k == 'rcall': return '%s(%s)' % (t[1], ', '.join(P(x) for x in t[2]))
    if k == 'call': return '%s(%s)' % (t[1].rsplit('::', 1)[-1], ', '.join(P(x) for x in t[2]))
    if k == 'lambda': return 'λ%s' % t[1].rsplit('::', 2)[-2:][0]
    if k == 'sload': return 'sload<%s>[%s].%s@%s' % (t[1], P(t[2]) if t[2] else '', t[3], t[4])
    if k == 'mayload_opt': return 'mayload<%s>[%s]@%s' % (t[1], P(t[2]) if t[2] else '', t[3])
    return '%s(%s)' % (k, ', '.join(P(x) if isinstance(x, tuple) else repr(x) for x in t[1:]))

def PF(f):
    k = f[0]
    if k == 'is': return '%s is %s' % (P(f[1]), f[2])
    if k == 'isnot': return '%s is not %s' % (P(f[1]), '|'.join(f[2]))
    if k == 'val': return '[%s] = %s' % (P(f[1]), f[2])
    if k == 'nval': return '[%s] ∉ %s' % (P(f[1]), list(f[2]))
    if k == 'or': return 'OR(' + ' | '.join(' & '.join(PF(x) for x in alt) for alt in f[1]) + ')'
    return repr(f)
