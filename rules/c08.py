"""C08 Convertible asks: one-time funded approval; approver escrow tracks the ask (R-guard, R-table, R-inv I2 at every ask write, R-write class transitions)."""
from engine import *
from money import *
from refusal import *
from c03 import canonical_id_facts
from c07 import funds_rule
PROP = 'C08'
CB_PATH = (('f', 'class'), ('v', 'Convertible', 'status'), ('v', 'Ready', 'converted_base'))
ASK_WRITERS = ('ApproveAsk', 'CreateAsk', 'CancelAsk', 'ExpireAsk', 'RejectAsk', 'ExecuteMatch')

def ask_of(v):
    return stored('ask', M(v, 'ask_id' if v == 'ExecuteMatch' else 'id'))

def class_state(p, clsterm):
    """('Basic'|'Pending'|'Ready'|None) of a class term, from its constructor or the path facts"""
    if clsterm[0] == 'adt':
        if clsterm[2] == 'Basic': return 'Basic'
        st = dict(clsterm[3]).get('status')
        if st and st[0] == 'adt': return 'Ready' if st[2] == 'Ready' else 'Pending'
        return None
    base = clsterm
    while base[0] == 'upd': 
        for s, _ in base[2]:
            if s[0] == 'v' and s[1] == 'Convertible': 
                pass
        base = base[1]
    c = p.variant_of(base)
    if c == 'Basic': return 'Basic'
    if c == 'Convertible':
        s = p.variant_of(V(base, 'Convertible', 'status'))
        if s == 'Ready': return 'Ready'
        if s == 'PendingIssuerApproval': return 'Pending'
    return None

def run(eng, tier):
    v = 'ApproveAsk'
    ASK = stored('ask', M(v, 'id')); CLASS = F(ASK, 'class'); STATUS = V(CLASS, 'Convertible', 'status')
    oks = eng.paths('execute', 'ok', v)
    eng.ob(len(oks) > 0, PROP, 'floor-ok-path', v, 'no successful approve path (fail closed)')
    for p in oks:
        saves = [w for w in p.writes if w['op'] == 'save' and w['ns'] == 'ask']
        eng.ob(len(saves) == 1 and len(p.writes) == 1, PROP, 'one-write', v, 'ApproveAsk must write exactly the named ask; found %s' % [(w['op'], w['ns']) for w in p.writes])
        if len(saves) != 1: continue
        w = saves[0]; sp = w['fpos']; dom = Dom(p)
        g = [('approver', ('val', CONTAINS(F(CFG, 'approvers'), SENDER), True)),
             ('ask-on-book', ('is', ('mayload_opt', 'ask', M(v, 'id'), 0), 'Some')),
             ('convertible', ('is', CLASS, 'Convertible')), ('pending', ('is', STATUS, 'PendingIssuerApproval')),
             ('size==current-size', ('val', EQ(F(ASK, 'size'), M(v, 'size')), True)),
             ('base==contract-base', ('val', EQ(F(CFG, 'base_denom'), M(v, 'base')), True)),
             ('size>=1', ('val', LT(M(v, 'size'), I(1)), False))] + [('id-canonical', f) for f in canonical_id_facts(M(v, 'id'))]
        for name, f in g:
            pos = p.pos(f)
            eng.ob(pos is not None and pos < sp, PROP, 'guard', '%s:%s' % (v, name), 'ApproveAsk: approval recorded on a path that does not establish %s: %s' % (name, fact_key(f)), where=p, detail=p.describe(20),
                   sample={'rule': 'guard', 'condition': name})
        funds_rule(eng, p, v, M(v, 'base'), M(v, 'size'), dom, sp, PROP)   # reports under this property's id via eng (rule names funds-*)
        want_cls = ('adt', 'ask_order::AskOrderClass', 'Convertible', (('status', ('adt', 'ask_order::AskOrderStatus', 'Ready', (('approver', SENDER),
                    ('converted_base', ('adt', 'cosmwasm_std::Coin', 'Coin', (('denom', M(v, 'base')), ('amount', M(v, 'size')))))))),))
        ups = upd_paths(w['val'], ASK)
        ok = ups is not None and len(ups) == 1 and ups[0][0] == (('f', 'class'),)
        eng.ob(ok, PROP, 'record', v + ':only-class', 'ApproveAsk: the saved ask is not the stored ask with only its class replaced (changed: %s)' % ([pth for pth, _ in ups] if ups is not None else 'not derived'), where=w['site'])
        if ok:
            got = ups[0][1]
            eng.ob(canon(got) == canon(want_cls), PROP, 'record', v + ':class-value', 'ApproveAsk: the written class is %s, expected Ready{approver: sender, converted_base: size of base}' % K(got)[:200], where=w['site'],
                   sample={'rule': 'record', 'written_class': K(got)[:160]})
        eng.ob(w['key'] == M(v, 'id'), PROP, 'key', v, 'ApproveAsk: saved under key %s' % K(w['key']), where=w['site'])
    # ---- I2 at every ask write; class transitions
    nI2 = 0
    for wv in ASK_WRITERS:
        ASKv = ask_of(wv)
        for p in eng.paths('execute', 'ok', wv):
            for op, key, val, w in written_record(p, 'ask'):
                if val is None: continue
                cls_new = nget(val, (('f', 'class'),))
                state_new = class_state(p, cls_new)
                base = val
                while base[0] == 'upd': base = base[1]
                state_old = class_state(p, F(base, 'class')) if base[0] == 'stored' else None
                if wv not in ('ApproveAsk', 'CreateAsk'):
                    eng.ob(state_new == state_old, PROP, 'class-transition', wv, '%s changes the approval state of an ask (%s -> %s); only approval may, and only pending -> approved' % (wv, state_old, state_new), where=w['site'], detail=p.describe(12))
                elif wv == 'ApproveAsk':
                    eng.ob(state_old == 'Pending' and state_new == 'Ready', PROP, 'class-transition', wv, 'ApproveAsk transition is %s -> %s, expected pending -> approved' % (state_old, state_new), where=w['site'])
                else:
                    eng.ob(state_new in ('Basic', 'Pending'), PROP, 'class-transition', wv, 'CreateAsk records an ask in state %s' % state_new, where=w['site'])
                if state_new == 'Ready' and op == 'save':
                    nI2 += 1
                    dom = Dom(p)
                    if base[0] == 'stored' and state_old == 'Ready': dom.assume_ready_ask(base)
                    amt = nget(val, CB_PATH + (('f', 'amount'),)); size = nget(val, (('f', 'size'),))
                    eng.ob(dom.eq(amt, size), PROP, 'I2', wv, '%s: the saved approved ask records approver amount %s but remaining size %s (must be equal after every operation)' % (wv, dom.show(amt), dom.show(size)),
                           where=w['site'], detail=p.describe(14), sample={'rule': 'I2', 'writer': wv, 'amount': dom.show(amt), 'size': dom.show(size)})
                    den = nget(val, CB_PATH + (('f', 'denom'),))
                    okd = den == F(V(V(F(base, 'class'), 'Convertible', 'status'), 'Ready', 'converted_base'), 'denom') or Equiv(p).same(den, F(CFG, 'base_denom'))
                    eng.ob(okd, PROP, 'I2-denom', wv, '%s: approver escrow denomination becomes %s' % (wv, K(den)), where=w['site'])
    eng.ob(nI2 >= 3, PROP, 'floor-I2-sites', 'count', 'fewer than 3 writers of approved asks found (approve, match, partial reject expected); found %d obligations' % nI2)
    # the approver gets back exactly the cancelled part (transfer tables of the ask reversals, shared with C04)
    import c04 as _c04
    old = _c04.PROP; _c04.PROP = PROP
    try:
        for rv in ('CancelAsk', 'ExpireAsk', 'RejectAsk'): _c04.ask_side(eng, rv)
    finally:
        _c04.PROP = old
    # pending never matched
    for p in eng.paths('execute', 'ok', 'ExecuteMatch'):
        A = ask_of('ExecuteMatch')
        stt = class_state(p, F(A, 'class'))
        eng.ob(stt in ('Basic', 'Ready'), PROP, 'pending-not-matched', 'ExecuteMatch', 'a match succeeds on an ask whose approval state is %s' % stt, where=p, detail=p.describe(12))
    # converse
    refs = Refusals(eng, 'execute')
    def isf(e, f): return e['fact'] == f
    T = [
        ('not-approver', 'L', lambda e: isf(e, ('val', CONTAINS(F(CFG, 'approvers'), SENDER), False))),
        ('funds-attached-for-restricted', 'L', lambda e: isf(e, ('val', ISEMPTY(FUNDS), False))),
        ('funds-not-exact', 'L', lambda e: isf(e, ('val', EQ(FUNDS, COINS(M(v, 'size'), M(v, 'base'))), False))),
        ('unknown-id', 'L', lambda e: isf(e, ('is', ('mayload_opt', 'ask', M(v, 'id'), 0), 'None'))),
        ('plain-ask', 'L', lambda e: isf(e, ('is', CLASS, 'Basic'))),
        ('already-approved', 'L', lambda e: isf(e, ('is', STATUS, 'Ready'))),
        ('size-mismatch', 'L', lambda e: isf(e, ('val', EQ(F(ASK, 'size'), M(v, 'size')), False))),
        ('base-mismatch', 'L', lambda e: isf(e, ('val', EQ(F(CFG, 'base_denom'), M(v, 'base')), False))),
        ('id-not-canonical', 'L', lambda e: id_not_canonical_fact(e['fact'], M(v, 'id'))),
        ('empty-base', 'L', lambda e: isf(e, ('val', ISEMPTY(M(v, 'base')), True))),
        ('size-below-1', 'L', lambda e: is_sign(e['fact'], M(v, 'size'), 'zero')),
        ('storage', 'I', lambda e: is_save_err(e['fact']) or is_storage_load_err(e['fact'])),
        ('class-serialisation', 'I', lambda e: e['fact'] is not None and e['fact'][0] == 'is' and e['fact'][2] == 'Err' and e['fact'][1][0] == 'call' and 'to_string' in e['fact'][1][1]),
        ('zero-amount-pull', 'D(validate: size >= 1)', lambda e: is_sign(e['fact'], M(v, 'size'), 'zero')),
    ]
    def ab(e, kind): return e.get('abort') and e['abort'][0] == kind
    TA = [('action-name-serialisation', 'D', lambda e: is_unit_enum_serialisation(e)),
          ('zero-amount-pull', 'D(validate: size >= 1)', lambda e: is_generic_err_unwrap(e))]
    m = check_table(eng, PROP, refs, v, T, TA, 'an approval')
    for name in ('not-approver', 'unknown-id', 'plain-ask', 'already-approved', 'size-mismatch', 'base-mismatch'):
        eng.ob(m[name] > 0, PROP, 'refusal-present', name, 'the stated refusal "%s" is not found in the code any more' % name)
    return {
        'explanation': 'R-guard at the save of ApproveAsk (approver, stored class Convertible/Pending, size == stored size, base == contract base, exact-funds rule on the marker flag of the base); R-table: written value = stored ask with only class := Ready{sender, coin(size, base)}; '
                       'R-inv I2 at every write of an approved ask (approve, match, partial reject): recorded approver amount == remaining size in the linear domain; R-write: approval state changes only pending -> approved and only in ApproveAsk; pending asks never matched; R-refusal converse for ApproveAsk.',
        'inventory': {'I2_obligations': nI2, 'matched_refusals': dict(m)},
        'trusted_base': ['interpreter models', 'linear domain'], 'not_decided': [], 'assumptions': ['I2 on loaded approved asks (inductive hypothesis)'],
    }

import probes as _pb
PROBES = [
    _pb.drop_facts('execute', 'ApproveAsk', 'ASK.size == msg.size'),
    _pb.drop_facts('execute', 'ApproveAsk', 'PendingIssuerApproval'),
]
