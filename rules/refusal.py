"""R-refusal: every Err / abort exit of a root with its decisive fact (DESIGN §4, Appendix A).

Decisive fact of an Err path = the first branch outcome on the path after which no (feasible) Ok exit is
reachable any more: computed on the prefix tree of the guard-fact sequences of all exits of the root.
Abort sites are keyed by their kind and operand terms."""
from engine import *

def fact_key(f):
    if f is None: return '<none>'
    if f[0] == 'or':
        return 'OR(' + ' | '.join(sorted(set(' & '.join(fact_key(x) for x in alt) for alt in f[1]))) + ')'
    return abbreviate(PF(f))

def variant_of_raw(first_facts):
    for f in first_facts:
        if f[0][0] == 'is' and f[0][1] == ('sym', 'msg'): return f[0][2]
    return None

class Refusals:
    def __init__(self, eng, root):
        self.eng = eng; self.root = root
        allp = eng.paths(root, None, None, feasible_only=False)
        # infeasibility also for err paths (prefix contains a folded contradiction)
        for p in allp:
            if p.kind == 'err' and p.infeasible is None:
                p.infeasible = infeasible_reason(p)
        trie = {}
        OKM = '__ok__'
        for p in allp:
            if p.kind in ('ok', 'ret') and p.infeasible is None:
                node = trie
                node[OKM] = True
                for f, _, _ in p.facts:
                    node = node.setdefault(f, {})
                    node[OKM] = True
        self.entries = {}    # (variant, 'err', key) -> entry
        for p in allp:
            if p.kind != 'err' or p.infeasible is not None: continue
            node = trie; dec = None; idx = None
            for i, (f, site, _) in enumerate(p.facts):
                nxt = node.get(f) if node is not None else None
                if nxt is None or not nxt.get(OKM):
                    dec = (f, site); idx = i; break
                node = nxt
            if dec is None:
                dec = (None, None); idx = len(p.facts)
            # `match x { 0 => .., _ => .. }` spellings of a zero test are presented to the tables as the comparison x == 0
            if dec[0] is not None and dec[0][0] == 'nval' and tuple(dec[0][2]) == (0,) and isinstance(dec[0][1], tuple):
                dec = (('val', EQ(I(0), dec[0][1]), False), dec[1])
            elif dec[0] is not None and dec[0][0] == 'val' and dec[0][2] == 0 and not isinstance(dec[0][2], bool) and isinstance(dec[0][1], tuple):
                dec = (('val', EQ(I(0), dec[0][1]), True), dec[1])
            key = fact_key(dec[0])
            e = self.entries.setdefault((p.variant, 'err', key), {'variant': p.variant, 'kind': 'err', 'key': key, 'fact': dec[0], 'site': dec[1], 'count': 0,
                                                                  'example': p, 'idx': idx, 'writes': False})
            e['count'] += 1
            if any(w['fpos'] <= idx for w in p.writes): e['writes'] = True
        N = eng.N[root]
        for a in eng.aborts(root):
            var = variant_of_raw(a['first_facts'])
            det = a['detail']
            if isinstance(det, tuple):
                def _n(x):
                    # overflow flag of a primitive checked operation (MIR assert): normalise its operands
                    if x and x[0] == 'ovf' and len(x) == 4: return ('ovf', x[1], N(x[2]), N(x[3]))
                    return N(x)
                try: args = tuple(_n(x) for x in det[1:] if isinstance(x, tuple))
                except Exception: args = ()
                key = '%s(%s)' % (det[0], ', '.join(K(x) for x in args))
                dterm = (det[0],) + args
            else:
                key = str(det); dterm = (str(det),)
            cm = set(N.fact(f) for f in a['common'])
            k = (var, a['kind'], key)
            e = self.entries.get(k)
            if e is None:
                self.entries[k] = {'variant': var, 'kind': a['kind'], 'key': key, 'fact': None, 'abort': dterm, 'site': a['site'], 'count': a['count'], 'common': cm,
                                   'example': None, 'writes': bool(a.get('writes_before'))}
            else:
                e['count'] += a['count']; e['common'] &= cm

    def of(self, variant):
        return [e for (v, k, key), e in self.entries.items() if v == variant]

# ---- matcher helpers over normalised facts
def is_storage_load_err(f, ns=None):
    return f is not None and f[0] == 'is' and f[2] == 'Err' and f[1][0] == 'sload' and (ns is None or f[1][1] == ns)
def is_save_err(f):
    return f is not None and f[0] == 'is' and f[2] == 'Err' and f[1][0] == 'sres'
def is_rcall_fail(f, kinds):
    return f is not None and f[0] == 'is' and f[2] in ('None', 'Err') and f[1][0] == 'rcall' and f[1][1] in kinds
def is_val(f, pred, val):
    return f is not None and f[0] == 'val' and f[1] == pred and f[2] == val

def is_unit_enum_serialisation(e):
    """unwrap(serde_json::to_value(<unit variant of a crate-local enum>)) and unwrap(as_str(<that value>)): serialising a field-less
    variant yields a JSON string and cannot fail"""
    a = e.get('abort')
    if not (a and a[0] == 'unwrap' and len(a) > 1 and isinstance(a[1], tuple)): return False
    x = a[1]
    for _ in range(6):
        if x[0] == 'call' and 'serde_json::to_' in str(x[1]):
            args = x[2]
            return len(args) == 1 and args[0][0] == 'adt' and args[0][3] == () and is_local_type(args[0][1])
        if x[0] in ('v', 'f') and isinstance(x[1], tuple): x = x[1]
        elif x[0] == 'call' and x[2] and isinstance(x[2][0], tuple) and str(x[1]).endswith('as_str'): x = x[2][0]
        else: return False
    return False

def is_generic_err_unwrap(e):
    """unwrap() of an explicit Err(StdError::generic_err(<text>)): the only such construction in the crate is the zero-amount refusal of
    the marker-transfer builder (its message text is not part of the rule)"""
    a = e.get('abort')
    if not (a and a[0] == 'unwrap' and len(a) > 1 and isinstance(a[1], tuple) and a[1][0] == 'adt' and a[1][2] == 'Err' and a[1][3]): return False
    x = a[1][3][0][1]
    return isinstance(x, tuple) and x[0] == 'call' and str(x[1]).endswith('generic_err')

def alternatives(e, table, aborts_table):
    """the tables are keyed by predicate, not by whether the refusal is an `Err` or a panic: `x.unwrap()` <-> `x?`,
    `a - b` (panicking) <-> `a.checked_sub(b)?` are the same refusal. Yields (table, entry-view) pairs to try."""
    if e['kind'] == 'err':
        yield table, e
        f = e['fact']
        # `if a < b { return Err(..) }` before `a - b`  is the refusal of `a.checked_sub(b)?`
        if f is not None and f[0] == 'val' and f[2] is True and isinstance(f[1], tuple) and f[1][0] == 'lt' and len(f[1]) == 3:
            for res in ('Err', 'None'):
                v = dict(e); v['fact'] = ('is', ('rcall', 'checked_sub', (f[1][1], f[1][2])), res); yield table, v
            v2 = dict(e); v2['kind'] = 'abort'; v2['fact'] = None; v2['abort'] = ('uint_Sub', f[1][1], f[1][2]); v2['key'] = 'uint_Sub(%s, %s)' % (K(f[1][1]), K(f[1][2]))
            yield aborts_table, v2
        if f is not None and f[0] == 'is' and f[2] in ('Err', 'None'):
            v = dict(e); v['kind'] = 'abort'; v['fact'] = None; v['abort'] = ('unwrap', f[1]); v['key'] = 'unwrap(%s)' % K(f[1])
            yield aborts_table, v
            if f[1][0] == 'rcall' and f[1][1] in ('checked_sub', 'checked_add') and len(f[1][2]) == 2:
                v2 = dict(v); v2['abort'] = ('uint_Sub' if f[1][1] == 'checked_sub' else 'uint_Add', f[1][2][0], f[1][2][1]); v2['key'] = '%s(%s)' % (v2['abort'][0], ', '.join(K(x) for x in f[1][2]))
                yield aborts_table, v2
    else:
        yield aborts_table, e
        a = e.get('abort')
        # primitive `a - b` / `a + b` on u128 (MIR overflow assert) is the same refusal as Uint128's panicking operator and as checked_*()?
        if a and a[0] == 'assert':
            ov = next((x for x in a[1:] if isinstance(x, tuple) and x and x[0] == 'ovf' and len(x) == 4 and x[1] in ('Sub', 'Add')), None)
            if ov is not None:
                v0 = dict(e); v0['abort'] = ('uint_' + ov[1], ov[2], ov[3]); v0['key'] = '%s(%s)' % (v0['abort'][0], ', '.join(K(x) for x in ov[2:]))
                yield aborts_table, v0
                a = v0['abort']; e = v0
        if a and a[0] == 'unwrap' and len(a) > 1:
            for res in ('Err', 'None'):
                v = dict(e); v['kind'] = 'err'; v['fact'] = ('is', a[1], res)
                yield table, v
            # a.checked_sub(b).unwrap() / .expect(..)  <->  a - b (panicking operator)
            if isinstance(a[1], tuple) and a[1][0] == 'rcall' and a[1][1] in ('checked_sub', 'checked_add') and len(a[1][2]) == 2:
                v2 = dict(e); v2['abort'] = ('uint_Sub' if a[1][1] == 'checked_sub' else 'uint_Add', a[1][2][0], a[1][2][1])
                v2['key'] = '%s(%s)' % (v2['abort'][0], ', '.join(K(x) for x in a[1][2]))
                yield aborts_table, v2
        if a and a[0] in ('uint_Sub', 'uint_Add') and len(a) == 3:
            kind = 'checked_sub' if a[0] == 'uint_Sub' else 'checked_add'
            for res in ('Err', 'None'):
                v = dict(e); v['kind'] = 'err'; v['fact'] = ('is', ('rcall', kind, (a[1], a[2])), res)
                yield table, v

def check_table(eng, prop, refs, variant, table, aborts_table, what):
    """every refusal of `variant` must match an entry of `table` (list of (name, class, matcher(entry)->bool)).
    Returns dict name -> count of matched sites."""
    matched = collections.Counter()
    def try_tables(e):
        for tbl, ent in alternatives(e, table, aborts_table):
            for name, cls, m in tbl:
                try:
                    if m(ent): return (name, cls)
                except Exception:
                    continue
        return None
    def folds(e):
        a = e.get('abort')
        if a and a[0] == 'unwrap' and len(a) > 1 and isinstance(a[1], tuple) and a[1][0] == 'rcall' and a[1][1] == 'checked_sub' and len(a[1][2]) == 2:
            a = ('uint_Sub', a[1][2][0], a[1][2][1])
        if a and a[0] == 'assert':
            ov = next((x for x in a[1:] if isinstance(x, tuple) and x and x[0] == 'ovf' and len(x) == 4 and x[1] == 'Sub'), None)
            if ov is not None: a = ('uint_Sub', ov[2], ov[3])
        if a and a[0] in ('uint_Sub',) and len(a) == 3:
            if a[2] == ('int', 0): return True
            try:
                d = poly(a[1]) - poly(a[2])
                if d.is_const() and d.m.get((), 0) >= 0: return True
            except Exception: pass
        return False
    for e in refs.of(variant):
        hit = ('fold', 'D(fold: x - 0 / x - x cannot underflow)') if folds(e) else try_tables(e)
        ok = hit is not None
        if ok: matched[hit[0]] += 1
        eng.ob(ok, prop, 'refusal', '%s:%s:%s' % (variant, e['kind'], e['key'][:300]),
               '%s: %s is refused%s when %s -- not among the refusals the property allows for this request (a legal request would be refused)' % (
                   variant, what, ' by a panic' if e['kind'] != 'err' else '', e['key'][:400]),
               where=e['site'], detail=(e['example'].describe() if e.get('example') else None),
               sample={'rule': 'refusal', 'request': variant, 'decisive': e['key'][:160], 'class': hit[1] if hit else None, 'entry': hit[0] if hit else None})
    return matched

if __name__ == '__main__':
    import pickle, sys
    eng = Engine(pickle.load(open(sys.argv[1], 'rb')))
    root = sys.argv[2]; var = sys.argv[3] if len(sys.argv) > 3 else None
    R = Refusals(eng, root)
    for (v, kind, key), e in sorted(R.entries.items(), key=lambda x: (str(x[0][0]), x[1]['site'] or '')):
        if var and v != var: continue
        print('%-14s %-6s %5d %-26s %s%s' % (v, kind, e['count'], short_site(e['site']), key[:230], '  [after write]' if e.get('writes') else ''))


def is_increment_zero(e):
    """abort of the lot-multiple test on a zero divisor: the primitive `%` (MIR assert) or Uint128's `%` / `/` operator, divisor = the configured size increment"""
    a = e.get('abort')
    if not a: return False
    if a[0] == 'assert': return 'size_increment' in e['key']
    if a[0] in ('uint_Rem', 'uint_Div') and len(a) == 3: return a[2] == F(CFG, 'size_increment')
    return False
