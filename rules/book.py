"""Shared book-keeping obligations over write effects: remove-iff-zero, written keys, immutable fields."""
from engine import *
from money import *

def zero_fact(p, dom, x):
    """(has_true, has_false): facts [0 == y] with y == x in the domain"""
    t = f_ = False
    for y, sg in p.signs():
        if isinstance(y, tuple) and numericish(y) and dom.eq(y, x):
            if sg == 'zero': t = True
            else: f_ = True
    return t, f_

def record_base(val):
    """the stored record a written value derives from (looking through `with`)"""
    t = val
    while t is not None and t[0] == 'upd': t = t[1]
    return t if (t is not None and t[0] == 'stored') else None

def remove_iff_zero(eng, PROP, p, unconditional_remove=('CancelAsk',)):
    """every save of an existing order establishes a non-zero remainder, every remove a zero one"""
    n = 0
    for ns in ('ask', 'bid'):
        for op, key, val, w in written_record(p, ns):
            base = record_base(val) if val is not None else None
            if base is None:
                continue    # creation (value built from the request) or invisible: handled by the callers' record rules
            if val == base and op == 'remove' and p.variant in unconditional_remove:
                continue
            dom = Dom(p)
            if ns == 'ask': rem = nget(val, (('f', 'size'),))
            else: rem = SUB(nget(val, (('f', 'base'), ('f', 'amount'))), nget(val, (('f', 'accumulated_base'),)))
            if ns == 'ask': old_rem = F(base, 'size')
            else: old_rem = SUB(F(base, 'base', 'amount'), F(base, 'accumulated_base'))
            if op == 'save' and dom.eq(rem, old_rem):
                continue    # remainder untouched (e.g. approval): positive by the inductive hypothesis I1/I3
            t, f_ = zero_fact(p, dom, rem)
            n += 1
            if op == 'remove':
                eng.ob(t or dom.is_zero(rem), PROP, 'remove-iff-zero', '%s:%s:remove' % (p.variant, ns),
                       '%s: the %s is removed from the book on a path that does not establish its new remainder %s is zero' % (p.variant, ns, dom.show(rem)), where=w['site'], detail=p.describe(14))
            else:
                eng.ob(f_, PROP, 'remove-iff-zero', '%s:%s:save' % (p.variant, ns),
                       '%s: the %s is kept on the book on a path that does not establish its new remainder %s is non-zero (an exhausted order would stay visible)' % (p.variant, ns, dom.show(rem)), where=w['site'], detail=p.describe(14))
    return n


def persistence_identity(eng, PROP):
    # persistence is the identity on records: every field of every persisted type is written by the derived Serialize impl under its own
    # name and required by the derived Deserialize impl (no skip / rename / default that would make a stored order differ from the written one)
    sd = eng.s.get('serde', {})
    from wire import persisted_types
    PERSISTED = persisted_types(eng)     # found by role (value types of the four namespaces and the local types nested in them), not by name
    eng.ob(len(PERSISTED) >= 7, PROP, 'anchor', 'persisted-types', 'expected at least 7 persisted record types (ask, class, status, bid, configuration, fee info, version), found %s' % PERSISTED)
    for ty in PERSISTED:
        adt = next((a for a in eng.s['adts'] if a['def'] == ty), None)
        eng.ob(adt is not None, PROP, 'anchor', ty, 'persisted type %s not found (fail closed)' % ty)
        if adt is None: continue
        fields = [f['name'] for v_ in adt['variants'] for f in v_['fields']]
        ser = sd.get('struct_field_names', {}).get(ty, []); req = sd.get('required_fields', {}).get(ty, [])
        eng.ob(sorted(ser) == sorted(fields), PROP, 'persistence-identity', ty + ':serialize', 'the Serialize impl of %s writes fields %s but the type has %s (a skipped or renamed field does not survive storage)' % (ty, ser, fields))
        eng.ob(sorted(req) == sorted(fields), PROP, 'persistence-identity', ty + ':deserialize', 'the Deserialize impl of %s requires %s but the type has %s (a defaulted or renamed field is not read back as written)' % (ty, req, fields))
