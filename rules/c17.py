"""C17 Response attributes truthfully report what was settled (R-table on the Response term of every Ok path)."""
import re
from engine import *
from money import *
from book import remove_iff_zero
PROP = 'C17'

ACTION = {'ApproveAsk': 'ApproveAsk', 'CancelAsk': 'CancelAsk', 'CancelBid': 'CancelBid', 'CreateAsk': 'CreateAsk', 'CreateBid': 'CreateBid',
          'ExecuteMatch': 'Execute', 'ExpireAsk': 'ExpireAsk', 'ExpireBid': 'ExpireBid', 'RejectAsk': 'RejectAsk', 'RejectBid': 'RejectBid', 'ModifyContract': 'ModifyContract'}

def snake(s): return re.sub(r'(?<!^)(?=[A-Z])', '_', s).lower()

def action_string(eng, t):
    """the string a ContractAction value serialises to, or None: recognises to_string(ContractAction::X) built from serde_json::to_value(..).as_str()"""
    adt = None
    x = t
    for _ in range(8):
        if x[0] == 'adt' and x[1] in eng.s.get('serde', {}).get('unit_variant_names', {}): adt = x; break
        if x[0] in ('v', 'f'): x = x[1]
        elif x[0] in ('call', 'rcall', 'tostr'):
            args = x[2] if x[0] != 'tostr' else (x[1],)
            if not args: break
            x = args[0]
        else: break
    if adt is None: return None
    names = eng.s.get('serde', {}).get('unit_variant_names', {}).get(adt[1])
    if not names: return None
    for a in eng.s['adts']:
        if a['def'] == adt[1]:
            for i, vv in enumerate(a['variants']):
                if vv['name'] == adt[2]: return names.get(i)
    return None

def strip_tostr(t):
    while t[0] == 'tostr': t = t[1]
    return t

def one(eng, p, key, v):
    vals = p.attr(key)
    eng.ob(len(vals) == 1, PROP, 'attr-present', '%s:%s' % (v, key), '%s: attribute "%s" appears %d times on a successful path (expected once)' % (v, key, len(vals)), where=p, detail=p.describe(12))
    return vals[0] if len(vals) == 1 else None

def run(eng, tier):
    counts = collections.Counter()
    for v, act in ACTION.items():
        oks = eng.paths('execute', 'ok', v)
        eng.ob(len(oks) > 0, PROP, 'floor-ok-path', v, 'no successful path for %s' % v)
        for p in oks:
            counts[v] += 1
            eng.ob(not any(k == ('opaque',) for k, _, _ in p.attrs), PROP, 'attr-visible', v, '%s: response attributes are not a visible list of attr(key, value)' % v)
            a = one(eng, p, 'action', v)
            if a is not None:
                s = action_string(eng, a)
                want = snake(act)
                eng.ob(s == want, PROP, 'action', v, '%s: action attribute is %s, expected "%s"' % (v, s if s else K(a)[:80], want),
                       sample={'rule': 'action', 'request': v, 'value': s})
            dom = Dom(p)
            if v in ('ExecuteMatch', 'ExpireAsk', 'RejectAsk', 'CancelBid', 'ExpireBid', 'RejectBid'):
                # an attribute-driven shadow book closes an order exactly when its remaining size reaches zero
                remove_iff_zero(eng, PROP, p)
            if v == 'ExecuteMatch':
                for key, idf in (('ask_id', 'ask_id'), ('bid_id', 'bid_id')):
                    x = one(eng, p, key, v)
                    if x is not None: eng.ob(x == M(v, idf), PROP, 'id', '%s:%s' % (v, key), 'match: attribute %s is %s, not the request %s' % (key, K(x), idf))
                x = one(eng, p, 'size', v)
                if x is not None: eng.ob(strip_tostr(x) == M(v, 'size'), PROP, 'amount', v + ':size', 'match: reported size is %s, not the executed size' % K(x))
                x = one(eng, p, 'price', v)
                if x is not None: eng.ob(x == ('tostr', DEC(M(v, 'price'))), PROP, 'amount', v + ':price', 'match: reported price is %s, not the execution price as a number' % K(x))
                trs = [t for t in transfers(p) if not t.get('bad')]
                for key, acct in (('ask_fee', F(SOMEV(F(CFG, 'ask_fee_info')), 'account')), ('bid_fee', F(SOMEV(F(CFG, 'bid_fee_info')), 'account'))):
                    x = one(eng, p, key, v)
                    if x is None: continue
                    paid = [t['amount'] for t in trs if t['to'] == acct]
                    total = I(0)
                    for a_ in paid: total = ADD(total, a_)
                    # same account for both fees: compare the sum of both attributes with the sum paid
                    other = 'bid_fee' if key == 'ask_fee' else 'ask_fee'
                    same_acct = False
                    eng.ob(dom.eq(strip_tostr(x), total), PROP, 'amount', '%s:%s' % (v, key),
                           'match: reported %s is %s but %s was paid to the %s account on this path' % (key, dom.show(strip_tostr(x)), dom.show(total), key.replace('_', '-')), where=p, detail=p.describe(20),
                           sample={'rule': 'amount', 'attr': key, 'reported': dom.show(strip_tostr(x)), 'paid': dom.show(total)})
            elif v in ('ExpireAsk', 'RejectAsk', 'CancelBid', 'ExpireBid', 'RejectBid'):
                side = 'ask' if v.endswith('Ask') else 'bid'
                REC = stored(side, M(v, 'id'))
                x = one(eng, p, 'id', v)
                if x is not None: eng.ob(x in (M(v, 'id'), F(REC, 'id')), PROP, 'id', v, '%s: id attribute is %s, not the request id' % (v, K(x)))
                rs = one(eng, p, 'reverse_size', v)
                trs = [t for t in transfers(p) if not t.get('bad')]
                if rs is not None:
                    rs = strip_tostr(rs)
                    if side == 'ask':
                        paid = [t['amount'] for t in trs if t['to'] == F(REC, 'owner')]
                        eng.ob(len(paid) == 1 and dom.eq(paid[0], rs), PROP, 'amount', v + ':reverse_size',
                               '%s: reported reverse_size %s differs from the base actually returned to the owner %s' % (v, dom.show(rs), [dom.show(a_) for a_ in paid]), where=p, detail=p.describe(20))
                    else:
                        bs = BidSpec(REC)
                        paid = [t['amount'] for t in trs if t['to'] == bs.owner and dom.eq(t['amount'], MUL(bs.P, rs))]
                        eng.ob(len(paid) >= 1, PROP, 'amount', v + ':reverse_size',
                               '%s: reported reverse_size %s: no transfer of price x that size to the owner (returned: %s)' % (v, dom.show(rs), [dom.show(t['amount']) for t in trs]), where=p, detail=p.describe(20))
                    # the decrement of the recorded remainder equals the reported size
                    recs = written_record(p, side)
                    if len(recs) == 1 and recs[0][2] is not None:
                        val = recs[0][2]
                        if side == 'ask': dec = SUB(F(REC, 'size'), nget(val, (('f', 'size'),)))
                        else: dec = SUB(nget(val, (('f', 'accumulated_base'),)), F(REC, 'accumulated_base'))
                        eng.ob(Dom(p, use=('path',)).eq(dec, rs), PROP, 'amount', v + ':reverse_size-vs-book', '%s: reported reverse_size %s but the recorded remainder shrinks by %s' % (v, dom.show(rs), dom.show(dec)))
                oo = one(eng, p, 'order_open', v)
                recs = written_record(p, side)
                if oo is not None and len(recs) == 1:
                    want = S('false') if recs[0][0] == 'remove' else S('true')
                    # the flag written from a boolean (b.to_string() / format!("{}", b)): its value on this path is what the path established for b
                    if oo[0] == 'tostr' and isinstance(oo[1], tuple):
                        if oo[1] in (('bool', True), ('int', 1)): oo = S('true')
                        elif oo[1] in (('bool', False), ('int', 0)): oo = S('false')
                        elif p.holds(oo[1], True) is not None: oo = S('true')
                        elif p.holds(oo[1], False) is not None: oo = S('false')
                    eng.ob(oo == want, PROP, 'order_open', '%s:%s' % (v, recs[0][0]), '%s: order_open is %s on a path that %ss the order' % (v, K(oo), recs[0][0]), where=recs[0][3]['site'], detail=p.describe(12),
                           sample={'rule': 'order_open', 'request': v, 'write': recs[0][0], 'value': K(oo)})
            elif v == 'CancelAsk':
                x = one(eng, p, 'id', v)
                REC = stored('ask', M(v, 'id'))
                if x is not None: eng.ob(x in (M(v, 'id'), F(REC, 'id')), PROP, 'id', v, 'CancelAsk: id attribute is %s, not the request id' % K(x))
            elif v in ('CreateAsk', 'CreateBid', 'ApproveAsk'):
                side = 'bid' if v == 'CreateBid' else 'ask'
                recs = [r for r in written_record(p, side) if r[0] == 'save']
                eng.ob(len(recs) == 1, PROP, 'record', v, '%s: expected one saved record' % v)
                if len(recs) != 1: continue
                val = recs[0][2]
                x = one(eng, p, 'id', v)
                if x is not None: eng.ob(x in (M(v, 'id'), nget(val, (('f', 'id'),))), PROP, 'id', v, '%s: id attribute is %s, not the recorded id' % (v, K(x)))
                x = one(eng, p, 'price', v)
                if x is not None: eng.ob(x == nget(val, (('f', 'price'),)), PROP, 'amount', v + ':price', '%s: reported price %s is not the recorded price %s' % (v, K(x), K(nget(val, (('f', 'price'),)))))
                x = one(eng, p, 'size', v)
                want = nget(val, (('f', 'size'),)) if side == 'ask' else nget(val, (('f', 'base'), ('f', 'amount')))
                if x is not None: eng.ob(strip_tostr(x) == want, PROP, 'amount', v + ':size', '%s: reported size %s is not the recorded size %s' % (v, K(x), K(want)))
                if v in ('CreateAsk', 'ApproveAsk'):
                    x = one(eng, p, 'class', v)
                    cls = nget(val, (('f', 'class'),))
                    if x is not None:
                        okc = x == V(('call', 'serde_json::to_string', (cls,)), 'Ok') or (x[0] == 'v' and x[1][0] == 'call' and 'to_string' in x[1][1] and x[1][2] == (cls,))
                        eng.ob(okc, PROP, 'class', v, '%s: reported class is not the serialisation of the recorded class %s' % (v, K(cls)[:120]))
    return {
        'explanation': 'R-table on the Response term of every successful abstract path of `execute`: action = the string the derived Serialize impl writes for the ContractAction constant of the request kind (read from the MIR of that impl), ids = request ids, '
                       'reverse_size = the amount transferred to the owner = the decrement of the recorded remainder, order_open = "false" exactly on remove paths and "true" on save paths, match size/price/ask_fee/bid_fee = executed size, execution price as a number, amounts sent to the fee accounts (0 when none), create/approve price/size/class = those of the saved record.',
        'inventory': {'ok_paths': dict(counts)},
        'trusted_base': ['serde rename_all="snake_case" semantics for unit variants', 'interpreter models of Response/attr'],
        'not_decided': ['the consumer-side shadow book follows by induction from per-step truthfulness; not re-derived'],
        'assumptions': [],
    }

import probes as _pb
PROBES = [
    _pb.drop_attr('execute', 'RejectBid', 'order_open'),
    _pb.drop_message('execute', 'ExpireAsk', 0),
]
