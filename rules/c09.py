"""C09 Fee exactness: configured rate at entry, half-away rounding, pro-rata thereafter (R-const rounding sites, R-table fee formulas, R-inv I7)."""
from engine import *
from money import *
from invariants import check_I7
import c02, c07
PROP = 'C09'
MODE = (I(0), ('adt', 'rust_decimal::RoundingStrategy', 'MidpointAwayFromZero', ()))

def find_rounds(t, acc):
    if isinstance(t, tuple):
        if t and t[0] == 'round': acc.append(t)
        if t and t[0] == 'call' and isinstance(t[1], str) and 'round' in t[1].lower() and 'Rounding' not in t[1]: acc.append(t)
        for x in t: find_rounds(x, acc)

def run(eng, tier):
    # ---- R-const: every rounding in the crate is round_dp_with_strategy(0, MidpointAwayFromZero)
    # crate-local helpers are not rounding primitives: they are inlined and the library call inside them is the site checked
    local_fns = set(f['def'] for f in eng.s['misc'].get('fn_sigs', [])) | set(c['caller'] for c in eng.s.get('callsites', []))
    sites = [c for c in eng.s.get('callsites', []) if c['callee'] not in local_fns and (c.get('resolved') or c['callee']) not in local_fns and
             ('round' in c['callee'].rsplit('::', 1)[-1].lower() or c['callee'].rsplit('::', 1)[-1] in ('trunc', 'floor', 'ceil', 'normalize', 'rescale'))]
    good = [c for c in sites if c['callee'].endswith('Decimal::round_dp_with_strategy')]
    for c in sites:
        eng.ob(c in good, PROP, 'rounding-api', c['callee'].rsplit('::', 1)[-1] + '@' + c['caller'], 'rounding by %s in %s: every rounding must be round_dp_with_strategy(0, MidpointAwayFromZero)' % (c['callee'], c['caller']), where=c['span'])
    eng.ob(len(good) >= 1, PROP, 'floor-rounding-sites', 'count', 'no round_dp_with_strategy site found (fail closed)')
    nr = 0
    for root in ('execute',):
        for p in eng.paths(root, 'ok'):
            acc = []
            for f, _, _ in p.facts: find_rounds(f, acc)
            for w in p.writes:
                if w['val'] is not None: find_rounds(w['val'], acc)
            for m_ in p.messages: find_rounds(m_['term'], acc)
            for r in set(acc):
                nr += 1
                ok = r[0] == 'round' and (r[2], r[3]) == MODE
                eng.ob(ok, PROP, 'rounding-mode', p.variant, '%s: an amount is rounded with %s; expected (0 decimal places, MidpointAwayFromZero)' % (p.variant, K(r)[:80] if r[0] != 'round' else (K(r[2]), K(r[3]))),
                       sample={'rule': 'rounding-mode', 'request': p.variant, 'mode': (K(r[2]), K(r[3])) if r[0] == 'round' else None})
    # ---- entry fee (CreateBid): fee == round0(rate * price * size), rate from bid_fee_info, denom == quote
    v = 'CreateBid'
    total = MUL(DEC(M(v, 'price')), M(v, 'size'))
    for p in eng.paths('execute', 'ok', v):
        dom = Dom(p)
        bfi = p.variant_of(F(CFG, 'bid_fee_info'))
        rate = DEC(F(SOMEV(F(CFG, 'bid_fee_info')), 'rate')) if bfi == 'Some' else I(0)
        calc = ROUND0(MUL(rate, total)); fee = M(v, 'fee'); fv = p.variant_of(fee)
        tgt = F(SOMEV(fee), 'amount') if fv == 'Some' else I(0)
        ok = any(f[0] == 'val' and f[2] is True and f[1][0] == 'eq' and ((f[1][1] == tgt and c07.fee_eq(dom, f[1][2], calc)) or (f[1][2] == tgt and c07.fee_eq(dom, f[1][1], calc))) for f, _, _ in p.facts)
        eng.ob(ok and bfi in ('Some', 'None'), PROP, 'entry-fee', 'fee=' + str(fv), 'CreateBid: the fee escrowed (%s) is not required to equal round-half-away(configured bid rate x price x size)' % ('fee.amount' if fv == 'Some' else 'absent = 0'), where=p, detail=p.describe(20),
               sample={'rule': 'entry-fee', 'formula': K(calc)[:120]})
        if fv == 'Some':
            eng.ob(p.holds(EQ(F(SOMEV(fee), 'denom'), M(v, 'quote')), True) is not None, PROP, 'entry-fee', 'denom', 'CreateBid: the fee is not required to be in the quote denomination')
    # ---- ask fee and bid fee on match: formula, base, deduction, recipients (shared with C02's table)
    bs = BidSpec(c02.BID)
    nmatch = 0
    for p in eng.paths('execute', 'ok', 'ExecuteMatch'):
        dom = Dom(p); dom.assume_bid(c02.BID, p.variant_of(bs.FEE) == 'Some')
        spec, why = c02.settle_spec(p, dom, bs)
        eng.ob(spec is not None, PROP, 'match-fees', 'classify:' + str(why), 'cannot identify the fee computation of a successful match path: %s (the ask fee must be round0(ask rate x executed price x size), the bid fee remF - round0((remQ - gross)/Q * F))' % why, where=p, detail=p.describe(20))
        if spec is None: continue
        nmatch += 1
        eqv = Equiv(p, [(bs.fdenom, bs.qdenom)] if spec['has_fee'] else [])
        trs = [t for t in transfers(p) if not t.get('bad')]
        act = [(t['denom'], t['amount'], t['to']) for t in trs]
        for name, d, a, to in spec['legs']:
            if name not in ('ask-fee', 'bid-fee', 'fee-refund', 'proceeds'): continue
            hit = any(to == t2 and (d == d2 or eqv.same(d, d2)) and dom.eq(a, a2) for d2, a2, t2 in act)
            eng.ob(hit, PROP, 'match-fees', name, 'match: the %s leg (%s of %s to %s) is not paid as specified' % (name, dom.show(a)[:160], K(d), K(to)), where=p, detail=p.describe(20),
                   sample={'rule': 'match-fees', 'leg': name, 'amount': K(a)[:140], 'to': K(to)})
        check_I7(eng, PROP, p)
    for v in ('RejectBid', 'CancelBid', 'ExpireBid', 'CreateBid'):
        for p in eng.paths('execute', 'ok', v): check_I7(eng, PROP, p)
    return {
        'explanation': 'R-const: every rounding call in the crate is Decimal::round_dp_with_strategy and every rounded amount on every successful path uses (0, MidpointAwayFromZero); R-table: entry fee == round0(bid rate x price x size) in the quote denomination (rate 0 when no bid fee), ask fee == round0(ask rate x executed gross) deducted from proceeds and sent to the ask-fee account, fill fee and refund per the pro-rata formula; '
                       'R-inv I7: after every fill, price-improved fill, reject and cancel the fee still held equals round0(fee x unspent quote / quote) as a term identity in the linear domain, and is zero when the bid leaves the book -- the per-step form of "fees paid and returned add up exactly to the fee escrowed".',
        'inventory': {'rounding_sites': [(c['caller'], c['span']) for c in good], 'rounded_terms_checked': nr, 'match_paths': nmatch},
        'trusted_base': ['linear domain + lemmas L-unit, L-zero, L-uns', 'interpreter models'],
        'not_decided': ['whether rust_decimal evaluates the 28-digit quotient to the exact nearest unit (the half-unit-tie tolerance of the statement): numeric precision, outside static reach'],
        'assumptions': ['I4 and I7 on loaded bids (inductive hypothesis)'],
    }

import probes as _pb
PROBES = [
    _pb.drop_facts('execute', 'CreateBid', 'round('),
]
