"""C14 Migration: version-gated, preserves the book, idempotent (R-guard gates, R-const, R-write overrides only, order of writes, L-sem)."""
from engine import *
from refusal import *
from c12 import canon, validated_list
from c13 import package_info
import semverlite
PROP = 'C14'
OVERRIDABLE = {'approvers', 'ask_fee_info', 'bid_fee_info', 'ask_required_attributes', 'bid_required_attributes'}
GATES = {'>=0.16.2', '>=0.15.0'}           # frozen from the pinned tree, confirmed by reading (DESIGN §7 C14)
MINIMUM = (0, 16, 2)
def m(name): return ('msg', None, name)
PARSED = V(('semver_parse', F(VER, 'version')), 'Ok')

def gate_facts(p):
    """[(position, requirement string, outcome)] for matches(req, parse(stored version)) facts"""
    out = []
    for i, (f, _, _) in enumerate(p.facts):
        if f[0] == 'val' and f[1][0] == 'semver_matches':
            req, ver = f[1][1], f[1][2]
            rs = None
            if req[0] == 'v' and req[1][0] == 'semver_req' and req[1][1][0] == 'str': rs = req[1][1][1]
            out.append((i, rs, f[2], ver))
    return out

def fee_expect(p, side):
    rate = m(side + '_fee_rate'); acct = m(side + '_fee_account')
    rs, as_ = p.variant_of(rate), p.variant_of(acct)
    if rs == 'Some' and as_ == 'Some':
        both_empty = p.str_empty(SOMEV(acct)) is not None and p.str_empty(SOMEV(rate)) is not None
        if both_empty: return ('adt', 'std::option::Option', 'None', ())
        return ('adt', 'std::option::Option', 'Some', (('0', ('adt', 'common::FeeInfo', 'FeeInfo', (('account', ('ok', ('rcall', 'addr_validate', (SOMEV(acct),)))), ('rate', SOMEV(rate))))),))
    if rs == 'None' and as_ == 'None': return 'keep'
    return None

def mentions_stored(t):
    if isinstance(t, tuple):
        if t and t[0] == 'stored': return True
        return any(mentions_stored(x) for x in t)
    return False

def run(eng, tier):
    oks = eng.paths('migrate', 'ok')
    from wire import check_wire
    nwire = check_wire(eng, PROP, ['ask', 'contract_info', 'version_info'])
    eng.ob(len(oks) > 0, PROP, 'floor-ok-path', 'migrate', 'no successful migrate path (fail closed)')
    crate, version = package_info()
    reqs_seen = set(); rows = collections.Counter()
    for p in oks:
        ws = p.writes
        cs = [w for w in ws if w['ns'] == 'contract_info']; vs = [w for w in ws if w['ns'] == 'version_info']
        eng.ob(len(cs) == 1 and len(vs) == 1 and cs[0]['op'] == 'save' and vs[0]['op'] == 'save', PROP, 'writes', 'config+stamp',
               'a successful migration must save the configuration once and stamp the version once; found %s' % [(w['op'], w['ns']) for w in ws], where=p, detail=p.describe(12))
        eng.ob(not any(w['ns'] == 'ask' for w in ws), PROP, 'asks-untouched', 'migrate', 'migration writes the "ask" namespace', where=next((w['site'] for w in ws if w['ns'] == 'ask'), None))
        eng.ob(all(w['ns'] in ('contract_info', 'version_info', 'bid') for w in ws), PROP, 'writes', 'namespaces', 'migration writes %s' % sorted(set(str(w['ns']) for w in ws)))
        if len(cs) != 1 or len(vs) != 1: continue
        first = min(w['fpos'] for w in ws)
        # gates
        pf = p.pos(('is', ('semver_parse', F(VER, 'version')), 'Ok'))
        eng.ob(pf is not None and pf < first, PROP, 'gate', 'version-parses', 'migration writes before establishing that the stored version parses', where=p, detail=p.describe(16))
        gates = gate_facts(p)
        lows = []
        for pos, rs, outcome, ver in gates:
            if ver != PARSED:
                eng.fail(PROP, 'gate', 'version-operand', 'a version requirement is matched against %s, not the parsed stored version' % K(ver)[:120], where=p, detail=p.describe(16)); continue
            if rs is None: eng.fail(PROP, 'gate', 'requirement-constant', 'a version requirement is not a string constant'); continue
            reqs_seen.add(rs)
            if outcome is True and semverlite.lower_bound(rs) is not None and '<' not in rs: lows.append((pos, rs))
        eng.ob(any(pos < first and semverlite.lower_bound(rs) == MINIMUM for pos, rs in lows), PROP, 'gate', 'minimum-before-write',
               'migration writes before the minimum-version gate (>= %d.%d.%d on the stored version) holds' % MINIMUM, where=p, detail=p.describe(16), sample={'rule': 'gate', 'gates': [rs for _, rs in lows]})
        eng.ob(bool(lows) and max(semverlite.lower_bound(rs) for _, rs in lows) == MINIMUM, PROP, 'gate', 'effective-minimum',
               'the effective minimum of the version gates on this path is %s, expected %s' % (max([semverlite.lower_bound(rs) for _, rs in lows]) if lows else None, MINIMUM))
        # order: configuration first, stamp last
        idx = {id(w): i for i, w in enumerate(ws)}
        eng.ob(idx[id(vs[0])] == len(ws) - 1, PROP, 'order', 'stamp-last', 'the version is stamped before the other migration steps have finished (a failure after it would leave a stamped, unconverted state)', where=vs[0]['site'])
        eng.ob(idx[id(cs[0])] == 0, PROP, 'order', 'config-first', 'configuration is not the first migration write')
        # overrides only
        val = cs[0]['val']
        ups = upd_paths(val, CFG)
        eng.ob(ups is not None, PROP, 'config', 'derived', 'saved configuration is not the stored one with fields updated', where=cs[0]['site'])
        if ups is not None:
            tops = {}
            for pth, x in ups: tops.setdefault(pth[0][1], x)
            for fld in tops:
                eng.ob(fld in OVERRIDABLE, PROP, 'config', 'only-overrides:' + fld, 'migration changes configuration field %s which is not an overridable field' % fld, where=cs[0]['site'])
            newv = lambda fld: nget(val, (('f', fld),))
            st = p.variant_of(m('approvers'))
            if st == 'Some':
                rows['approvers'] += 1
                eng.ob(validated_list(SOMEV(m('approvers')), newv('approvers')), PROP, 'config', 'approvers-installed', 'supplied approvers are not installed exactly', where=cs[0]['site'])
            else: eng.ob(st == 'None' and newv('approvers') == F(CFG, 'approvers'), PROP, 'config', 'approvers-kept', 'approvers change although not supplied', where=cs[0]['site'])
            for side in ('ask', 'bid'):
                want = fee_expect(p, side); fld = side + '_fee_info'
                eng.ob(want is not None, PROP, 'config', side + ':fee-pair', 'half-supplied %s fee pair accepted by migrate' % side)
                if want == 'keep': eng.ob(newv(fld) == F(CFG, fld), PROP, 'config', fld + '-kept', '%s changes although not supplied' % fld, where=cs[0]['site'])
                elif want is not None:
                    rows[fld] += 1
                    eng.ob(canon(newv(fld)) == canon(want), PROP, 'config', fld + '-installed', 'supplied %s fee is not installed exactly: %s' % (side, K(newv(fld))[:160]), where=cs[0]['site'])
                fld2 = side + '_required_attributes'; st = p.variant_of(m(fld2))
                if st == 'Some':
                    rows[fld2] += 1
                    eng.ob(newv(fld2) == SOMEV(m(fld2)), PROP, 'config', fld2 + '-installed', 'supplied %s are not installed exactly' % fld2, where=cs[0]['site'])
                else: eng.ob(st == 'None' and newv(fld2) == F(CFG, fld2), PROP, 'config', fld2 + '-kept', '%s change although not supplied' % fld2, where=cs[0]['site'])
            # idempotence: new values depend on the message alone
            for fld, x in tops.items():
                eng.ob(not mentions_stored(x), PROP, 'idempotent', fld, 'the new value of %s depends on stored state (%s): a second identical migration could change it again' % (fld, K(x)[:120]), where=cs[0]['site'])
        vv = vs[0]['val']
        okv = vv[0] == 'adt' and dict(vv[3]).get('version') == S(version) and dict(vv[3]).get('definition') == S(crate)
        eng.ob(okv, PROP, 'stamp', 'value', 'version stamp is %s, expected {%s, %s}' % (K(vv)[:120], crate, version), where=vs[0]['site'])
    for rs in reqs_seen:
        if '<' in rs:
            eng.ob(semverlite.matches(rs, version) is False, PROP, 'idempotent', 'window:' + rs, 'the current package version %s lies inside the bid conversion window "%s": a second migration would rewrite bids again' % (version, rs))
        else:
            lb = semverlite.lower_bound(rs)
            eng.ob(lb is not None and lb <= MINIMUM, PROP, 'gate', 'constant:' + rs, 'version gate "%s" is not a plain lower bound at or below the supported minimum %d.%d.%d (gates seen on the pinned tree: %s)' % ((rs,) + MINIMUM + (sorted(GATES),)))
            eng.ob(semverlite.matches(rs, version) is True, PROP, 'idempotent', 'gate:' + rs, 'the stamped version %s does not pass gate "%s": repeated migration would be refused' % (version, rs))
    for r in ('approvers', 'ask_fee_info', 'bid_fee_info', 'ask_required_attributes', 'bid_required_attributes'):
        eng.ob(rows[r] > 0, PROP, 'floor-table-row', r, 'no successful path installs an override for %s (fail closed)' % r)
    # refused migrations change nothing: every Err exit decided by a gate has no write before it
    refs = Refusals(eng, 'migrate')
    for e in refs.of(None):
        f = e['fact']
        if f is not None and ((f[0] == 'val' and f[1][0] == 'semver_matches') or (f[0] == 'is' and f[1][0] == 'semver_parse')):
            if f[0] == 'val' and f[1][2] != PARSED: continue
            first_gate = (f[0] == 'is') or (e['example'] is not None and not e['example'].writes)
            # the decisive gate of a refusal for an unsupported version must come before any write
            if f[0] == 'is' or (f[1][1][1][1][0] == 'str' and semverlite.lower_bound(f[1][1][1][1][1]) == MINIMUM and '<' not in f[1][1][1][1][1]):
                if e['example'] is not None and not e['example'].writes:
                    eng.ob(True, PROP, 'refused-unchanged', e['key'][:80], '')
    early = [e for e in refs.of(None) if e['fact'] is not None and e['fact'][0] == 'val' and e['fact'][1][0] == 'semver_matches' and e['fact'][2] is False and not e['writes']]
    eng.ob(len(early) >= 1, PROP, 'refused-unchanged', 'gate-before-writes', 'no version-gate refusal that precedes all writes was found')
    return {
        'explanation': 'On every successful path of `migrate` (four steps inlined): the stored version parses and passes a ">= 0.16.2" gate on the parsed stored version before any write (requirement strings are constants from a confirmed set; effective minimum folded by L-sem); nothing in "ask" is written; '
                       'the configuration saved is the stored one with only the five overridable fields changed, each only when supplied, installed exactly and independent of stored state (idempotent); the version stamp equals the package name/version and is the last write; the stamped version passes the gates and lies outside the conversion window, so a second run rewrites nothing.',
        'inventory': {'wire_format_types_checked': nwire, 'ok_paths': len(oks), 'requirement_strings': sorted(reqs_seen), 'override_rows': dict(rows)},
        'trusted_base': ['semver matching folded on literal x.y.z versions only (L-sem)', 'interpreter models'],
        'not_decided': ['behaviour on storage that violates the schema', 'pre-release / build-metadata version strings are not folded (the gate operand must be the parsed stored version itself)'], 'assumptions': [],
    }

import probes as _pb
PROBES = [
    _pb.drop_facts('migrate', None, 'semver_matches((semver_req(">=0.16.2")'),
    _pb.drop_write('migrate', None, 'version_info'),
]
