"""C02 Match settlement: per successful path the transfer multiset and the two written records equal the spec table (R-table, R-origin)."""
from engine import *
from money import *
PROP = 'C02'
V_ = 'ExecuteMatch'
ASK = stored('ask', M(V_, 'ask_id')); BID = stored('bid', M(V_, 'bid_id'))
SIZE = M(V_, 'size'); PE = DEC(M(V_, 'price'))
CLASS = F(ASK, 'class'); STATUS = V(CLASS, 'Convertible', 'status'); CB = V(STATUS, 'Ready', 'converted_base'); APPR = V(STATUS, 'Ready', 'approver')
CB_PATH = (('f', 'class'), ('v', 'Convertible', 'status'), ('v', 'Ready', 'converted_base'))
AFI = F(CFG, 'ask_fee_info'); BFI = F(CFG, 'bid_fee_info')

def find_lt0(p, dom, x, val):
    """is there a fact [0 < y] = val with y == x in the domain?"""
    want = 'pos' if val else 'zero'
    for y, sg in p.signs():
        if sg == want and isinstance(y, tuple) and numericish(y) and dom.eq(y, x): return True
    return False

def fee_like(p, dom):
    """amounts the path tests against zero that involve a rounding: shown when the expected fee formula is not found"""
    out = []
    for y, sg in p.signs():
        if isinstance(y, tuple) and 'round' in repr(y): out.append('%s (%s)' % (dom.show(y)[:220], sg))
    return '; amounts involving a rounding that the path does test: [%s]' % ' | '.join(out[:3]) if out else '; the path tests no rounded amount against zero'

def settle_spec(p, dom, bs):
    """expected legs and bookkeeping deltas for this path, read off its guard facts; returns dict or (None, reason)"""
    G = MUL(PE, SIZE); O = MUL(bs.P, SIZE)
    cls = p.variant_of(CLASS)
    ready = cls == 'Convertible' and p.variant_of(STATUS) == 'Ready'
    if not (cls == 'Basic' or ready): return None, 'ask class not established'
    seller = APPR if ready else F(ASK, 'owner')
    legs = []
    if ready:
        legs.append(('base-to-buyer', F(CB, 'denom'), SIZE, bs.owner))
        legs.append(('convertible-to-approver', F(ASK, 'base'), SIZE, APPR))
    else:
        legs.append(('base-to-buyer', F(ASK, 'base'), SIZE, bs.owner))
    # ask fee
    A = ROUND0(MUL(DEC(F(SOMEV(AFI), 'rate')), G))
    afi = p.variant_of(AFI)
    ask_fee = None
    if afi == 'Some':
        pos = zero = False
        for y, sg in p.signs():
            if isinstance(y, tuple) and numericish(y) and dom.eq(y, A):
                if sg == 'pos': pos = True
                else: zero = True
        if pos: ask_fee = A
        elif not zero: return None, 'ask fee configured but no zero / non-zero branch on round0(ask rate x executed gross)' + fee_like(p, dom)
    elif afi != 'None': return None, 'ask_fee_info presence not established'
    net = SUB(G, ask_fee) if ask_fee is not None else G
    legs.append(('proceeds', bs.qdenom, net, seller))
    if ask_fee is not None: legs.append(('ask-fee', bs.qdenom, ask_fee, F(SOMEV(AFI), 'account')))
    # bid fee
    has_fee = p.variant_of(bs.FEE) == 'Some'
    b1 = bs.bidfee(G); b1_paid = False
    if has_fee:
        if find_lt0(p, dom, b1, True): b1_paid = True
        elif find_lt0(p, dom, b1, False): dom.add_equality(b1, I(0))
        else: return None, 'fee-bearing bid: no branch on "fee for this fill > 0" with the fee = remaining fee - round0((remaining quote - gross)/quote x fee)' + fee_like(p, dom)
        if b1_paid:
            if p.variant_of(BFI) != 'Some': return None, 'bid fee paid but bid_fee_info presence not established'
            legs.append(('bid-fee', bs.fdenom, b1, F(SOMEV(BFI), 'account')))
    elif p.variant_of(bs.FEE) != 'None': return None, 'bid fee presence not established'
    improved = p.holds(LT(PE, bs.P), True) is not None
    not_improved = p.holds(LT(PE, bs.P), False) is not None
    if not (improved or not_improved): return None, 'no branch on exec price < bid price'
    dq = G; df = b1 if b1_paid else I(0)
    if improved:
        R = SUB(O, G)
        legs.append(('quote-refund', bs.qdenom, R, bs.owner)); dq = ADD(G, R)
        if has_fee:
            b2 = bs.bidfee(O)
            b2_pos = find_lt0(p, dom, b2, True)
            if not b2_pos:
                if find_lt0(p, dom, b2, False): dom.add_equality(b2, I(0))
                else: return None, 'improved fill of a fee-bearing bid: no branch on "fee at the bid price > 0" with the pro-rata formula' + fee_like(p, dom)
            r = SUB(b2, b1) if b1_paid else b2
            if b2_pos:
                if b1_paid:
                    if find_lt0(p, dom, r, True): legs.append(('fee-refund', bs.fdenom, r, bs.owner)); df = ADD(df, r)
                    elif not find_lt0(p, dom, r, False): return None, 'no branch on "fee refund > 0"'
                else:
                    legs.append(('fee-refund', bs.fdenom, r, bs.owner)); df = ADD(df, r)
    return {'legs': legs, 'ready': ready, 'has_fee': has_fee, 'dq': dq, 'df': df, 'improved': improved}, None

def run(eng, tier):
    oks = eng.paths('execute', 'ok', V_)
    eng.ob(len(oks) > 0, PROP, 'floor-ok-path', V_, 'no successful match path found (fail closed)')
    bs = BidSpec(BID)
    classes = collections.Counter(); legs_seen = collections.Counter()
    for p in oks:
        dom = Dom(p); dom.assume_bid(BID, p.variant_of(bs.FEE) == 'Some')
        spec, why = settle_spec(p, dom, bs)
        eng.ob(spec is not None, PROP, 'classify', why or 'ok', 'cannot establish the settlement class of a successful match path: %s' % why, where=p, detail=p.describe())
        if spec is None: continue
        if spec['ready']: dom.assume_ready_ask(ASK)
        eqv = Equiv(p, [(bs.fdenom, bs.qdenom)] if spec['has_fee'] else [])
        cname = '%s/%s/%s' % ('ready' if spec['ready'] else 'plain', 'improved' if spec['improved'] else 'at-bid', '+'.join(l[0] for l in spec['legs']))
        classes[cname] += 1
        trs = transfers(p)
        bad = [t for t in trs if t.get('bad')]
        act = [(t['denom'], t['amount'], t['to']) for t in trs if not t.get('bad')]
        exp = [(d, a, to) for _, d, a, to in spec['legs']]
        ua, ue = match_multiset(dom, eqv, act, exp)
        for l in spec['legs']: legs_seen[l[0]] += 1
        eng.ob(not ua and not ue and not bad, PROP, 'transfers', cname,
               'match (%s): transfers differ from the spec; unexpected: %s; missing: %s' % (cname, [(K(d), dom.show(a), K(t)) for d, a, t in ua], [(K(d), dom.show(a), K(t)) for d, a, t in ue]),
               where=(trs[0].get('call_site') if trs else None), detail=p.describe(),
               sample={'rule': 'transfers', 'class': cname, 'legs': [(n, K(d), K(a)[:120], K(t)) for n, d, a, t in spec['legs']]})
        check_exact_conversions(eng, PROP, p)
        for t in trs:
            if not t.get('bad') and t['mech'] == 'marker':
                eng.ob(t['from'] == SELF and t['admin'] == SELF, PROP, 'drawn-from-contract', K(t['to']),
                       'match payout to %s is not drawn from the contract (from=%s administrator=%s)' % (K(t['to']), K(t['from']), K(t['admin'])), where=t['call_site'])
        # exactly the two named records are written
        ws = p.writes
        ask_w = written_record(p, 'ask'); bid_w = written_record(p, 'bid')
        eng.ob(len(ws) == 2 and len(ask_w) == 1 and len(bid_w) == 1, PROP, 'two-writes', V_, 'a match must write exactly the named ask and the named bid; found %s' % [(w['op'], w['ns'], K(w['key'])) for w in ws], where=p, detail=p.describe())
        if len(ask_w) != 1 or len(bid_w) != 1: continue
        op, key, val, w = ask_w[0]
        eng.ob(key in (M(V_, 'ask_id'), F(ASK, 'id')), PROP, 'key', 'ask', 'the ask is written under key %s, not the request ask id' % K(key), where=w['site'])
        newsize = SUB(F(ASK, 'size'), SIZE)
        if op == 'remove': eng.ob(p.holds(EQ(I(0), newsize), True) is not None, PROP, 'remove-iff-zero', 'ask:remove', 'ask removed without establishing its new size is zero', where=w['site'], detail=p.describe())
        else: eng.ob(p.holds(EQ(I(0), newsize), False) is not None, PROP, 'remove-iff-zero', 'ask:save', 'ask saved without establishing its new size is non-zero', where=w['site'], detail=p.describe())
        if val is not None:
            ups = upd_paths(val, ASK)
            eng.ob(ups is not None, PROP, 'record', 'ask:derived', 'written ask is not the loaded ask with fields updated', where=w['site'])
            if ups is not None:
                d = dict(ups)
                extra = [k for k in d if k not in {(('f', 'size'),), CB_PATH + (('f', 'amount'),)}]
                eng.ob(not extra, PROP, 'record', 'ask:only-size', 'ask fields other than size / approver amount change: %s' % extra, where=w['site'])
                dnp = Dom(p, use=('path',))
                eng.ob(dnp.eq(nget(val, (('f', 'size'),)), newsize), PROP, 'bookkeeping', 'ask:size', 'ask size becomes %s, expected size - executed size' % K(nget(val, (('f', 'size'),))), where=w['site'], detail=p.describe())
                if spec['ready']:
                    cba = nget(val, CB_PATH + (('f', 'amount'),))
                    eng.ob(dnp.eq(cba, newsize), PROP, 'bookkeeping', 'ask:approver-amount', 'approver amount becomes %s but the remaining size is %s' % (K(cba), K(newsize)), where=w['site'], detail=p.describe())
        else:
            eng.fail(PROP, 'record', 'ask:visible', 'cannot see the ask record at its write', where=w['site'])
        op, key, val, w = bid_w[0]
        eng.ob(key in (M(V_, 'bid_id'), F(BID, 'id')), PROP, 'key', 'bid', 'the bid is written under key %s, not the request bid id' % K(key), where=w['site'])
        new_remB = SUB(bs.remB, SIZE)
        zt = [f for f, _, _ in p.facts if f[0] == 'val' and f[1][0] == 'eq' and f[1][1] == I(0) and dom.eq(f[1][2], new_remB)]
        if op == 'remove': eng.ob(any(f[2] is True for f in zt), PROP, 'remove-iff-zero', 'bid:remove', 'bid removed without establishing its remaining size is zero', where=w['site'], detail=p.describe())
        else: eng.ob(any(f[2] is False for f in zt), PROP, 'remove-iff-zero', 'bid:save', 'bid saved without establishing its remaining size is non-zero', where=w['site'], detail=p.describe())
        if val is None:
            eng.fail(PROP, 'record', 'bid:visible', 'cannot see the bid record at its write', where=w['site']); continue
        ups = upd_paths(val, BID)
        eng.ob(ups is not None, PROP, 'record', 'bid:derived', 'written bid is not the loaded bid with fields updated', where=w['site'])
        if ups is None: continue
        d = dict(ups)
        allowed = {(('f', 'accumulated_base'),), (('f', 'accumulated_quote'),), (('f', 'accumulated_fee'),)}
        extra = [k for k in d if k not in allowed]
        eng.ob(not extra, PROP, 'record', 'bid:only-accumulators', 'bid fields other than the accumulators change: %s' % extra, where=w['site'])
        for fld, delta in (('accumulated_base', SIZE), ('accumulated_quote', spec['dq']), ('accumulated_fee', spec['df'])):
            old = F(BID, fld); new = d.get((('f', fld),), old)
            eng.ob(dom.eq(new, ADD(old, delta)), PROP, 'bookkeeping', 'bid:' + fld,
                   'after the match %s is %s, expected %s (old + what was paid out of it)' % (fld, dom.show(new), dom.show(ADD(old, delta))), where=w['site'], detail=p.describe())
    for leg in ('base-to-buyer', 'convertible-to-approver', 'proceeds', 'ask-fee', 'bid-fee', 'quote-refund', 'fee-refund'):
        eng.ob(legs_seen[leg] > 0, PROP, 'floor-table-row', leg, 'spec table row "%s" is matched by no path (fail closed)' % leg)
    return {
        'explanation': 'R-table: each successful abstract path of ExecuteMatch is classified from its guard facts (ask plain/approved, ask fee none/zero/positive, bid fee none/zero/positive, execution at the bid price or improved, fee refund) and '
                       'its multiset of transfers (denomination, polynomial amount, recipient) must equal the legs of the property statement; exactly the named ask and bid are written, each the loaded record with only size/approver amount resp. the three accumulators changed by exactly what was paid; remove iff the remainder is zero.',
        'inventory': {'ok_paths': len(oks), 'settlement_classes': dict(classes), 'legs': dict(legs_seen), 'infeasible_paths_skipped': dict(eng.infeasible)},
        'trusted_base': ['polynomial normaliser, lemmas L-uns, L-pos, L-int (DESIGN §6)', 'interpreter models'],
        'not_decided': ['numeric value of the rounded products'],
        'assumptions': ['I4/I7/I2 on the loaded records for amount equalities'],
    }

import probes as _pb
PROBES = [
    _pb.drop_message('execute', 'ExecuteMatch', -1),
    _pb.drop_write('execute', 'ExecuteMatch', 'bid'),
]
