"""C13 Instantiation accepts exactly the coherent configurations (R-guard at both saves, R-table stored == message, R-refusal)."""
import re, os
from engine import *
from refusal import *
from c12 import canon, validated_list, validating_collect
PROP = 'C13'
def m(name): return ('msg', None, name)

def package_info():
    repo = os.environ.get('ATSA_REPO', '/repo')
    txt = open(os.path.join(repo, 'Cargo.toml')).read()
    pk = txt.split('[package]', 1)[1].split('\n[', 1)[0]
    name = re.search(r'^\s*name\s*=\s*"([^"]+)"', pk, re.M).group(1).replace('-', '_')
    ver = re.search(r'^\s*version\s*=\s*"([^"]+)"', pk, re.M).group(1)
    return name, ver

def validated_list_inst(listterm, got):
    return validated_list(listterm, got)

def half_pair_or(f, pairs):
    """the disjunctive spelling of 'exactly one half of a (rate, account) pair is present' (e.g. from `a.is_some() != b.is_some()`)"""
    if f[0] != 'or' or len(f[1]) != 2: return False
    for r, a in pairs:
        want = {frozenset([('is', r, 'None'), ('is', a, 'Some')]), frozenset([('is', r, 'Some'), ('is', a, 'None')])}
        if set(frozenset(alt) for alt in f[1]) == want: return True
    return False

def fee_expect(p, side):
    rate = m(side + '_fee_rate'); acct = m(side + '_fee_account')
    rs, as_ = p.variant_of(rate), p.variant_of(acct)
    NONE_ = ('adt', 'std::option::Option', 'None', ())
    if rs == 'None' and as_ == 'None': return NONE_, None
    if rs == 'Some' and as_ == 'Some':
        both_empty = p.str_empty(SOMEV(acct)) is not None and p.str_empty(SOMEV(rate)) is not None
        if both_empty: return NONE_, None
        return ('adt', 'std::option::Option', 'Some', (('0', ('adt', 'common::FeeInfo', 'FeeInfo', (('account', ('ok', ('rcall', 'addr_validate', (SOMEV(acct),)))), ('rate', SOMEV(rate))))),)), ('is', ('rcall', 'from_str', (SOMEV(rate),)), 'Ok')
    return None, 'half'

def run(eng, tier):
    oks = eng.paths('instantiate', 'ok')
    eng.ob(len(oks) > 0, PROP, 'floor-ok-path', 'instantiate', 'no successful instantiate path (fail closed)')
    crate, version = package_info()
    some_fee = collections.Counter()
    for p in oks:
        cs = [w for w in p.writes if w['ns'] == 'contract_info' and w['op'] == 'save']
        vs = [w for w in p.writes if w['ns'] == 'version_info' and w['op'] == 'save']
        eng.ob(len(cs) == 1 and len(vs) == 1 and len(p.writes) == 2, PROP, 'two-writes', 'instantiate', 'instantiate must write the configuration and the version record once each; found %s' % [(w['op'], w['ns']) for w in p.writes])
        if len(cs) != 1 or len(vs) != 1: continue
        first = min(cs[0]['fpos'], vs[0]['fpos'])
        guards = [('name', ('val', ISEMPTY(m('name')), False)), ('base_denom', ('val', ISEMPTY(m('base_denom')), False)),
                  ('quote-list', ('val', ISEMPTY(m('supported_quote_denoms')), False)), ('executor-list', ('val', ISEMPTY(m('executors')), False)),
                  ('precision<=18', ('val', LT(I(18), m('price_precision')), False)), ('increment>=1', ('val', LT(m('size_increment'), I(1)), False)),
                  ('increment-multiple-of-10^precision', ('val', EQ(I(0), REM(m('size_increment'), POW10(m('price_precision')))), True))]
        for name, f in guards:
            pos = p.pos(f)
            eng.ob(pos is not None and pos < first, PROP, 'guard', name, 'a configuration is stored on a path that does not establish %s: %s' % (name, fact_key(f)), where=p, detail=p.describe(20), sample={'rule': 'guard', 'condition': name})
        val = cs[0]['val']
        eng.ob(val[0] == 'adt', PROP, 'record', 'built', 'stored configuration is not built field by field')
        if val[0] != 'adt': continue
        d = dict(val[3])
        for fld in ('name', 'base_denom', 'convertible_base_denoms', 'supported_quote_denoms', 'ask_required_attributes', 'bid_required_attributes', 'price_precision', 'size_increment'):
            eng.ob(d.get(fld) == m(fld), PROP, 'record', fld, 'stored %s is %s, not the message field' % (fld, K(d.get(fld)) if d.get(fld) else None), where=cs[0]['site'])
        eng.ob(d.get('bind_name') == S(''), PROP, 'record', 'bind_name', 'stored bind_name is %s' % K(d.get('bind_name')))
        for fld in ('approvers', 'executors'):
            eng.ob(validated_list_inst(m(fld), d.get(fld, ('x',))), PROP, 'record', fld, 'stored %s are not the message list with every element address-validated: %s' % (fld, K(d.get(fld))[:200]), where=cs[0]['site'],
                   sample={'rule': 'record', 'field': fld, 'value': K(d.get(fld))[:120]})
        for side in ('ask', 'bid'):
            want, extra = fee_expect(p, side)
            eng.ob(want is not None, PROP, 'guard', side + ':fee-pair', 'a half-supplied %s fee pair is accepted' % side, where=p, detail=p.describe(12))
            if want is None: continue
            got = d.get(side + '_fee_info')
            eng.ob(got is not None and canon(got) == canon(want), PROP, 'record', side + '_fee_info', 'stored %s fee is %s, expected %s' % (side, K(got)[:160] if got else None, K(want)[:160]), where=cs[0]['site'], detail=p.describe(20))
            if want[2] == 'Some':
                some_fee[side] += 1
                eng.ob(p.pos(extra) is not None, PROP, 'guard', side + ':rate-parses', 'a %s fee rate is stored without being parsed' % side)
        vv = vs[0]['val']
        okv = vv[0] == 'adt' and dict(vv[3]).get('version') == S(version) and dict(vv[3]).get('definition') == S(crate)
        eng.ob(okv, PROP, 'record', 'version', 'version record is %s, expected {definition: %s, version: %s}' % (K(vv)[:120], crate, version), where=vs[0]['site'])
    eng.ob(some_fee['ask'] > 0 and some_fee['bid'] > 0, PROP, 'floor-table-row', 'fee-pairs', 'no successful path stores a fee (fail closed)')
    # premises of lemma L-K (any admissible price x any admissible size is an integer): (a) admitted prices have at most `price_precision`
    # decimals, (b) admitted sizes are multiples of `size_increment`, both tested against the STORED parameters; (c) increment % 10^precision == 0
    # (guard above); (d) the two parameters are never rewritten (C12 market-frozen). The arithmetic conclusion itself is the lemma.
    from c07 import price_guards
    nlk = 0
    for v in ('CreateAsk', 'CreateBid'):
        for p in eng.paths('execute', 'ok', v):
            nlk += 1
            ga = dict(price_guards('price', v))['price-within-precision']
            gb = ('val', EQ(I(0), REM(M(v, 'size'), F(CFG, 'size_increment'))), True)
            eng.ob(p.pos(ga) is not None and p.pos(gb) is not None, PROP, 'L-K-premises', v,
                   '%s admits an order without testing price precision and lot multiple against the stored price_precision / size_increment (the integrality consequence of instantiation would not follow)' % v, where=p, detail=p.describe(12))
    eng.ob(nlk > 0, PROP, 'floor-ok-path', 'L-K', 'no admission path found for the L-K premises')
    # converse
    refs = Refusals(eng, 'instantiate')
    def isf(e, f): return e['fact'] == f
    def addr_err(e):
        f = e['fact']
        if f is not None and f[0] == 'is' and f[2] == 'Err' and f[1][0] == 'collect': return validating_collect(f[1], m('approvers')) or validating_collect(f[1], m('executors'))
        return f is not None and f[0] == 'is' and f[2] == 'Err' and f[1][0] == 'rcall' and f[1][1] == 'addr_validate'
    T = [
        ('empty-name', 'L', lambda e: isf(e, ('val', ISEMPTY(m('name')), True))), ('empty-base', 'L', lambda e: isf(e, ('val', ISEMPTY(m('base_denom')), True))),
        ('empty-quotes', 'L', lambda e: isf(e, ('val', ISEMPTY(m('supported_quote_denoms')), True))), ('empty-executors', 'L', lambda e: isf(e, ('val', ISEMPTY(m('executors')), True))),
        ('half-fee-pair', 'L', lambda e: e['fact'] is not None and ((e['fact'][0] == 'is' and e['fact'][1] in (m('ask_fee_account'), m('bid_fee_account'), m('ask_fee_rate'), m('bid_fee_rate')))
            or half_pair_or(e['fact'], [(m('ask_fee_rate'), m('ask_fee_account')), (m('bid_fee_rate'), m('bid_fee_account'))]))),
        ('precision-above-18', 'L', lambda e: isf(e, ('val', LT(I(18), m('price_precision')), True))),
        ('increment-below-1', 'L', lambda e: is_sign(e['fact'], m('size_increment'), 'zero')),
        ('invalid-address', 'L', addr_err),
        ('rate-unparsable', 'L', lambda e: e['fact'] is not None and e['fact'][0] == 'is' and e['fact'][2] == 'Err' and e['fact'][1][0] == 'rcall' and e['fact'][1][1] == 'from_str'),
        ('increment-not-multiple', 'L', lambda e: isf(e, ('val', EQ(I(0), REM(m('size_increment'), POW10(m('price_precision')))), False))),
        ('storage', 'I', lambda e: is_save_err(e['fact']) or is_storage_load_err(e['fact'])),
        ('loop-bound', 'B(analysis bound: more than 2 list elements are covered by the per-iteration obligations)', lambda e: e['fact'] is not None and e['fact'][0] == 'is' and e['fact'][1][0] == 'iternext' and e['fact'][2] == 'Some'),
    ]
    def ab(e, kind): return e.get('abort') and e['abort'][0] == kind
    TA = [('action-name-serialisation', 'D', lambda e: is_unit_enum_serialisation(e)),
          ('power-of-ten', 'D(validate: precision <= 18 so 10^p fits and is non-zero)', lambda e: ab(e, 'assert'))]
    mt = check_table(eng, PROP, refs, None, T, TA, 'an instantiate message')
    for name, cls, _ in T:
        if cls == 'L': eng.ob(mt[name] > 0, PROP, 'refusal-present', name, 'the stated refusal "%s" is not found in the code any more' % name)
    return {
        'explanation': 'R-guard: every coherence condition (non-empty name/base/quotes/executors, paired fees with parseable rate and validated account, precision <= 18, increment >= 1, increment mod 10^precision == 0, every approver/executor address-validated) is a fact before both saves on every successful path; '
                       'R-table: the stored configuration equals the message field by field (bind_name "", empty pair -> no fee) and the version record equals {crate name, package version} of Cargo.toml; R-refusal: no refusal beyond the negated conditions and storage failure.',
        'inventory': {'ok_paths': len(oks), 'matched_refusals': dict(mt)},
        'trusted_base': ['interpreter models (loops unrolled to 3 iterations)', 'addr_validate as oracle'],
        'not_decided': ['the arithmetic step of the integrality consequence is lemma L-K (price*10^p integral, size = k*increment, increment = m*10^p  =>  price*size integral); its code-level premises are checked (rule L-K-premises + the increment guard + C12 market-frozen)'], 'assumptions': [],
    }

import probes as _pb
PROBES = [
    _pb.drop_facts('instantiate', None, '18 < msg.price_precision'),
    _pb.drop_write('instantiate', None, 'version_info'),
]
