"""C06 Exit liveness: cancel / expire of any open order is refused only for funds attached, unknown id, wrong sender;
every other refusal on the exit paths must be discharged by a named invariant/lemma; the whole remainder is paid and the key removed."""
from engine import *
from money import *
from refusal import *
PROP = 'C06'

def common_entries(v, side):
    T = [
        ('funds-attached', 'L', lambda e: e['fact'] == ('val', ISEMPTY(FUNDS), False)),
        ('id-not-a-uuid', 'L', lambda e: e['fact'] == ('is', ('uuid_parse', M(v, 'id')), 'Err')),
        ('unknown-id', 'L', lambda e: is_not_on_book(e['fact'], side, M(v, 'id'))),
        ('empty-id', 'D(validate: a UUID is not empty)', lambda e: e['fact'] == ('val', ISEMPTY(M(v, 'id')), True)),
        ('config-load', 'I', lambda e: is_storage_load_err(e['fact'], 'contract_info')),
        ('storage-save', 'I', lambda e: is_save_err(e['fact']) or (is_storage_load_err(e['fact']) and e['fact'][1][3] == 'may_load')),   # Map::update re-reads the entry before writing
    ]
    return T

def ab(e, kind): return e.get('abort') and e['abort'][0] == kind

def ask_tables(v):
    ASK = stored('ask', M(v, 'id'))
    T = common_entries(v, 'ask')
    if v == 'CancelAsk':
        T.append(('not-owner', 'L', lambda e: e['fact'] == ('val', EQ(SENDER, F(ASK, 'owner')), False)))
    else:
        T.append(('not-executor', 'L', lambda e: e['fact'] == ('val', CONTAINS(F(CFG, 'executors'), SENDER), False)))
    if v == 'RejectAsk':
        c = SOMEV(M(v, 'size'))
        T += [('supplied-size-not-lot-multiple', 'L(supplied size)', lambda e: e['fact'] == ('val', EQ(I(0), REM(c, F(CFG, 'size_increment'))), False)),
              ('supplied-size-above-remaining', 'L(supplied size)', lambda e: e['fact'] == ('is', ('rcall', 'checked_sub', (F(ASK, 'size'), c)), 'Err')),
              ('supplied-size-below-1', 'L(supplied size)', lambda e: is_sign(e['fact'], c, 'zero'))]
    TA = [
        ('action-name-serialisation', 'D(unit enum serialises)', lambda e: is_unit_enum_serialisation(e)),
        ('zero-amount-marker-transfer', 'D(I1: open ask has size > 0; supplied size >= 1; I2)', lambda e: is_generic_err_unwrap(e)),
        ('increment-zero', 'D(K: size_increment >= 1)', lambda e: is_increment_zero(e)),
    ]
    return T, TA

def bid_tables(v):
    BID = stored('bid', M(v, 'id')); bs = BidSpec(BID)
    T = common_entries(v, 'bid')
    if v == 'CancelBid':
        T.append(('not-owner', 'L', lambda e: e['fact'] == ('val', EQ(SENDER, F(BID, 'owner')), False)))
    else:
        T.append(('not-executor', 'L', lambda e: e['fact'] == ('val', CONTAINS(F(CFG, 'executors'), SENDER), False)))
    sizes = [bs.remB]
    if v == 'RejectBid':
        c = SOMEV(M(v, 'size')); sizes.append(c)
        T += [('supplied-size-not-lot-multiple', 'L(supplied size)', lambda e: e['fact'] == ('val', EQ(I(0), REM(c, F(CFG, 'size_increment'))), False)),
              ('supplied-size-above-remaining', 'L(supplied size)', lambda e: e['fact'] == ('val', LT(bs.remB, c), True)),
              ('supplied-size-below-1', 'L(supplied size)', lambda e: is_sign(e['fact'], c, 'zero')),
              ('supplied-size-quote-fractional', 'D(K, L-K: price*lot-multiple is whole)', lambda e: e['fact'] == ('val', EQ(('fract', MUL(bs.P, c)), I(0)), False))]
    def any_size(fn):
        return lambda e: any(fn(e, c) for c in sizes)
    T += [
        ('returned-quote-overflow', 'D(I4, L-fit: price*remaining = recorded remaining quote)', any_size(lambda e, c: e['fact'] == ('is', ('rcall', 'checked_mul', (bs.P, c)), 'None'))),
        ('returned-quote-fractional', 'D(I4: price*remaining base = remaining quote, an integer)', lambda e: e['fact'] == ('val', EQ(('fract', MUL(bs.P, bs.remB)), I(0)), False)),
        ('fee-product-overflow', 'D(L-fit: ratio <= 1)', any_size(lambda e, c: e['fact'] is not None and e['fact'][0] == 'is' and e['fact'][2] == 'None' and e['fact'][1][0] == 'rcall' and e['fact'][1][1] == 'checked_mul' and bs.Ft in e['fact'][1][2])),
        # compared as polynomials: the product inside the rounding may be written in either order
        ('fee-remaining-underflow', 'D(I7, L-mono)', any_size(lambda e, c: e['fact'] is not None and e['fact'][0] == 'is' and e['fact'][2] == 'Err' and e['fact'][1][0] == 'rcall' and e['fact'][1][1] == 'checked_sub'
            and len(e['fact'][1][2]) == 2 and poly(e['fact'][1][2][0]) == poly(bs.remF) and poly(e['fact'][1][2][1]) == poly(ROUND0(MUL(bs.Ft, DIV(SUB(bs.remQ, MUL(bs.P, c)), bs.Q)))))),
        ('accumulator-overflow', 'D(I3, L-fit)', lambda e: e['fact'] is not None and e['fact'][0] == 'is' and e['fact'][2] == 'Err' and e['fact'][1][0] == 'rcall' and e['fact'][1][1] == 'checked_add'
            and e['fact'][1][2][0] in (bs.aB, bs.aQ, bs.aF)),
    ]
    TA = [
        ('action-name-serialisation', 'D(unit enum serialises)', lambda e: is_unit_enum_serialisation(e)),
        ('zero-amount-marker-transfer', 'D(I3, I6: remaining > 0 and price > 0)', lambda e: is_generic_err_unwrap(e)),
        ('increment-zero', 'D(K: size_increment >= 1)', lambda e: is_increment_zero(e)),
        ('remaining-amounts', 'D(I3: accumulators <= totals)', lambda e: ab(e, 'uint_Sub') and e['abort'][1] in (bs.B, bs.Q, bs.Ft)),
        ('remaining-quote-after', 'D(I4, L-fit)', lambda e: ab(e, 'uint_Sub') and e['abort'][1] == bs.remQ),
        ('stored-price-unparsable', 'D(I6)', lambda e: ab(e, 'unwrap') and e['abort'][1] == ('rcall', 'from_str', (F(BID, 'price'),))),
        ('decimal-conversion', 'D(L-fit, I8: quote.amount > 0)', lambda e: ab(e, 'unwrap') and e['abort'][1][0] == 'rcall' and e['abort'][1][1] in ('from_u128', 'checked_div', 'to_u128')),
    ]
    return T, TA

def whole_remainder(eng, v, side):
    n = 0
    for p in eng.paths('execute', 'ok', v):
        if v.startswith('Reject') and p.variant_of(M(v, 'size')) != 'None': continue
        n += 1
        recs = written_record(p, side)
        ok = len(recs) == 1 and recs[0][0] == 'remove' and len(p.writes) == 1
        eng.ob(ok, PROP, 'exit-removes', v, '%s (no size): the order is not removed from the book on a successful path (writes: %s)' % (v, [(w['op'], w['ns']) for w in p.writes]), where=p, detail=p.describe())
        dom = Dom(p); eqv = Equiv(p)
        trs = [t for t in transfers(p) if not t.get('bad')]
        if side == 'ask':
            ASK = stored('ask', M(v, 'id')); CLASS = F(ASK, 'class'); STATUS = V(CLASS, 'Convertible', 'status')
            ready = ask_class_presence(eng, PROP, p, ASK, 'the ask exits') == 'Ready'
            if ready: dom.assume_ready_ask(ASK)
            exp = [(F(ASK, 'base'), F(ASK, 'size'), F(ASK, 'owner'))]
            if ready: exp.append((F(V(STATUS, 'Ready', 'converted_base'), 'denom'), F(ASK, 'size'), V(STATUS, 'Ready', 'approver')))
            ua, ue = match_multiset(dom, eqv, [(t['denom'], t['amount'], t['to']) for t in trs], exp)
            eng.ob(not ua and not ue, PROP, 'exit-pays-remainder', v, '%s: payouts are not the entire recorded remainder; unexpected %s missing %s' % (v, [(K(d), dom.show(a), K(t)) for d, a, t in ua], [(K(d), dom.show(a), K(t)) for d, a, t in ue]),
                   where=p, detail=p.describe(), sample={'rule': 'exit-pays-remainder', 'request': v, 'paid': [(K(t['denom']), K(t['amount']), K(t['to'])) for t in trs]})
        else:
            BID = stored('bid', M(v, 'id')); bs = BidSpec(BID)
            has_fee = fee_presence(eng, PROP, p, bs.FEE, 'the bid exits') == 'Some'
            dom.assume_bid(BID, has_fee)
            # L-uns (not (x > 0) => x == 0) is applied by the domain itself
            total = I(0)
            okto = True
            for t in trs:
                total = ADD(total, t['amount'])
                if t['to'] != bs.owner: okto = False
            want = ADD(bs.remQ, bs.remF) if has_fee else bs.remQ
            eng.ob(okto and dom.eq(total, want), PROP, 'exit-pays-remainder', v,
                   '%s: the owner is paid %s but the recorded remaining quote (+fee) is %s' % (v, dom.show(total), dom.show(want)), where=p, detail=p.describe(),
                   sample={'rule': 'exit-pays-remainder', 'request': v, 'paid_total': dom.show(total), 'recorded_remainder': dom.show(want)})
    return n

def run(eng, tier):
    refs = Refusals(eng, 'execute')
    from wire import check_wire
    nwire = check_wire(eng, PROP, ['ask', 'bid', 'bid(old format)', 'contract_info'])
    # the discharged refusals lean on I2 / I4 / I7 and on whole-number totals of every open order: their preservation by every
    # order-changing request is part of this property's argument (the same step obligations are reported under C01/C08/C09/C11)
    from invariants import check_I2, check_I4, check_I7
    from money import check_exact_conversions
    ninv = 0
    for v in ('ApproveAsk', 'ExecuteMatch', 'RejectAsk', 'RejectBid', 'ExpireAsk', 'ExpireBid', 'CancelAsk', 'CancelBid', 'CreateBid'):
        for p in eng.paths('execute', 'ok', v):
            ninv += (check_I2(eng, PROP, p) or 0) + (check_I4(eng, PROP, p) or 0) + (check_I7(eng, PROP, p) or 0)
            if v in ('ExecuteMatch', 'CancelBid', 'ExpireBid', 'RejectBid', 'CreateBid'): check_exact_conversions(eng, PROP, p)
    inv = {}
    for v in ('CancelAsk', 'ExpireAsk', 'RejectAsk'):
        T, TA = ask_tables(v)
        m = check_table(eng, PROP, refs, v, T, TA, 'an exit request')
        inv[v] = dict(m); n = whole_remainder(eng, v, 'ask')
        eng.ob(n > 0, PROP, 'floor-ok-path', v, 'no successful whole-remainder path for %s' % v)
    for v in ('CancelBid', 'ExpireBid', 'RejectBid'):
        T, TA = bid_tables(v)
        m = check_table(eng, PROP, refs, v, T, TA, 'an exit request')
        inv[v] = dict(m); n = whole_remainder(eng, v, 'bid')
        eng.ob(n > 0, PROP, 'floor-ok-path', v, 'no successful whole-remainder path for %s' % v)
    return {
        'explanation': 'R-refusal on the exit requests (cancel, expire, and reject without a size): every Err/abort exit, keyed by its decisive fact, must be one of: funds attached, id not a UUID / unknown id, wrong sender-role, '
                       'or be discharged by a named invariant/lemma (I1-I8, K, L-fit, L-mono) or be incidental storage failure; for Reject with a supplied size additionally the three partial-size refusals. '
                       'A refusal that depends on the order\'s remainder (e.g. a lot-multiple test of the default size) has no entry and is reported. R-table: on these paths the key is removed and the payouts are the entire recorded remainder (linear domain with I2/I4/I7, L-zero, L-uns). '
                       'Legacy ids: the exit requests only require Uuid::parse_str to succeed and use the raw id as key (no canonical-form refusal exists in the table).',
        'inventory': {'wire_format_types_checked': nwire, 'invariant_preservation_instances': ninv, 'matched_refusals': inv},
        'trusted_base': ['invariants I1-I8/K and lemmas as named per discharged entry (DESIGN §5-6)', 'interpreter models'],
        'not_decided': ['that the invariants capture every reachable state is the paper induction of DESIGN §5 (step obligations under C01/C08/C09/C11)'],
        'assumptions': [],
    }

import probes as _pb
PROBES = [
    _pb.drop_write('execute', 'CancelBid', 'bid'),
]
