"""Invariant-preservation obligations (R-inv, DESIGN §5) as reusable functions over the write effects of one path.
Each assumes the invariants on the loaded record (inductive hypothesis) and checks them on the written one in the linear domain."""
from engine import *
from money import *
from book import record_base, remove_iff_zero
CB_PATH = (('f', 'class'), ('v', 'Convertible', 'status'), ('v', 'Ready', 'converted_base'))

def l_uns(dom, p):
    """L-uns: for unsigned x, not (0 < x) implies x == 0"""
    for x, sg in p.signs():
        if sg == 'zero' and isinstance(x, tuple) and numericish(x): dom.add_equality(x, I(0))

def bid_dom(p, base, eng=None, PROP=None, what=None):
    bs = BidSpec(base)
    if eng is not None: has_fee = fee_presence(eng, PROP, p, bs.FEE, what) == 'Some'
    else: has_fee = p.variant_of(bs.FEE) == 'Some'
    dom = Dom(p); dom.assume_bid(base, has_fee); l_uns(dom, p)
    return bs, has_fee, dom

def check_I7(eng, PROP, p):
    """fee still held == round0(fee * unspent quote / quote) after every bid write; zero when the bid leaves the book"""
    n = 0
    for op, key, val, w in written_record(p, 'bid'):
        if val is None: continue
        base = record_base(val)
        if base is None:
            # creation: accumulators zero => remF == F == round0(F * Q/Q) by L-unit; checked structurally
            if val[0] == 'adt':
                d = dict(val[3])
                eng.ob(d.get('accumulated_fee') == I(0) and d.get('accumulated_quote') == I(0), PROP, 'I7', 'create', 'a new bid does not start with zero accumulated fee / quote', where=w['site']); n += 1
            continue
        bs, has_fee, dom = bid_dom(p, base, eng, PROP, 'the bid is %s' % ('removed' if op == 'remove' else 'rewritten'))
        if not has_fee:
            na = nget(val, (('f', 'accumulated_fee'),))
            eng.ob(dom.eq(na, bs.aF), PROP, 'I7', p.variant + ':no-fee', '%s: accumulated_fee of a fee-less bid changes to %s' % (p.variant, dom.show(na)), where=w['site']); n += 1
            continue
        naF = nget(val, (('f', 'accumulated_fee'),)); naQ = nget(val, (('f', 'accumulated_quote'),))
        held = SUB(bs.Ft, naF); want = bs.ERF(SUB(bs.Q, naQ))
        n += 1
        eng.ob(dom.eq(held, want), PROP, 'I7', '%s:%s' % (p.variant, op),
               '%s: after the operation the fee still held is %s but the pro-rata fee of the unspent quote is %s (fee paid/returned is not pro-rata; a unit can drift or strand)' % (p.variant, dom.show(held), dom.show(want)),
               where=w['site'], detail=p.describe(16), sample={'rule': 'I7', 'writer': p.variant, 'op': op, 'held': dom.show(held)[:160]})
        if op == 'remove':
            eng.ob(dom.is_zero(held), PROP, 'I7-zero-at-removal', p.variant, '%s: the bid leaves the book while %s of its fee is still held (stranded)' % (p.variant, dom.show(held)), where=w['site'], detail=p.describe(16))
    return n

def check_I4(eng, PROP, p):
    n = 0
    for op, key, val, w in written_record(p, 'bid'):
        if val is None: continue
        base = record_base(val)
        if base is None: continue
        bs, has_fee, dom = bid_dom(p, base)
        nremq = SUB(bs.Q, nget(val, (('f', 'accumulated_quote'),))); nremb = SUB(bs.B, nget(val, (('f', 'accumulated_base'),)))
        n += 1
        eng.ob(dom.eq(nremq, MUL(bs.P, nremb)), PROP, 'I4', p.variant, '%s: after the operation unspent quote %s != price x unfilled size %s' % (p.variant, dom.show(nremq), dom.show(MUL(bs.P, nremb))), where=w['site'], detail=p.describe(12))
    return n

def ask_state(p, ASK):
    CLASS = F(ASK, 'class'); STATUS = V(CLASS, 'Convertible', 'status')
    c = p.variant_of(CLASS)
    if c == 'Basic': return 'Basic'
    if c == 'Convertible':
        s = p.variant_of(STATUS)
        return {'Ready': 'Ready', 'PendingIssuerApproval': 'Pending'}.get(s)
    return None

def check_I2(eng, PROP, p):
    n = 0
    for op, key, val, w in written_record(p, 'ask'):
        if val is None or op != 'save': continue
        base = record_base(val)
        cls = nget(val, (('f', 'class'),))
        ready_new = False
        if cls[0] == 'adt':
            st = dict(cls[3]).get('status'); ready_new = bool(st and st[0] == 'adt' and st[2] == 'Ready')
        elif base is not None: ready_new = ask_state(p, base) == 'Ready'
        if not ready_new: continue
        dom = Dom(p)
        if base is not None and ask_state(p, base) == 'Ready': dom.assume_ready_ask(base)
        amt = nget(val, CB_PATH + (('f', 'amount'),)); size = nget(val, (('f', 'size'),))
        n += 1
        eng.ob(dom.eq(amt, size), PROP, 'I2', p.variant, '%s: the saved approved ask records approver amount %s but remaining size %s' % (p.variant, dom.show(amt), dom.show(size)), where=w['site'], detail=p.describe(12))
    return n
