"""Library-call models for the atsa interpreter (DESIGN §3: transparent / modelled / comparison calls).

Keyed by resolved def path of *external* API items (std, cosmwasm_std, cw_storage_plus,
rust_decimal ...). Crate-local helpers are never modelled here: they are inlined.
"""
import re
from interp import (C, UNIT, TRUE, FALSE, SOME, NONE, OK, ERR, mk_not, mk_eq, get_step, get_path,
                    set_path, UNDEF, PathEnd)

CONTINUE = lambda x: ('adt', 'std::ops::ControlFlow', 'Continue', (('0', x),))
BREAK = lambda x: ('adt', 'std::ops::ControlFlow', 'Break', (('0', x),))

def strip_named(t):
    return t[2] if t[0] == 'named' else t

# ---------------------------------------------------------------- generic helpers
def variant_payload(x, variant):
    return get_step(x, ('v', variant, '0'))

def m_identity(it, st, args, info):
    return it.deref(st, args[0])

def m_identity_keepref(it, st, args, info):
    return args[0]

def m_try_branch(it, st, args, info):
    x = strip_named(it.deref(st, args[0]))
    is_opt = info['name'].startswith('<std::option::Option')
    okv, errv = ('Some', 'None') if is_opt else ('Ok', 'Err')
    outs = []
    for s, v in it.fork_variants(st, x, [okv, errv], info['site']):
        if v == okv: outs.append((s, CONTINUE(variant_payload(x, okv))))
        elif is_opt: outs.append((s, BREAK(NONE)))
        else: outs.append((s, BREAK(ERR(variant_payload(x, 'Err')))))
    return outs

def m_from_residual(it, st, args, info):
    r = strip_named(it.deref(st, args[0]))
    if info['name'].startswith('<std::option::Option'): return NONE
    e = variant_payload(r, 'Err')
    ta = info['targs']
    if len(ta) >= 3 and ta[1] == ta[2]: return ERR(e)
    return ERR(('call', 'std::convert::From::from', tuple(ta[1:3]), (e,)))

def m_ok_or(it, st, args, info):
    x = strip_named(it.deref(st, args[0]))
    outs = []
    for s, v in it.fork_variants(st, x, ['Some', 'None'], info['site']):
        outs.append((s, OK(variant_payload(x, 'Some')) if v == 'Some' else ERR(args[1])))
    return outs

def m_ok_or_else(it, st, args, info):
    x = strip_named(it.deref(st, args[0]))
    outs = []
    for s, v in it.fork_variants(st, x, ['Some', 'None'], info['site']):
        outs.append((s, OK(variant_payload(x, 'Some')) if v == 'Some' else ERR(('errfn', args[1]))))
    return outs

def m_map_err(it, st, args, info):
    x = strip_named(it.deref(st, args[0]))
    outs = []
    for s, v in it.fork_variants(st, x, ['Ok', 'Err'], info['site']):
        if v == 'Ok': outs.append((s, OK(variant_payload(x, 'Ok'))))
        else: outs.append((s, ERR(('errmap', variant_payload(x, 'Err')))))
    return outs

def m_result_ok(it, st, args, info):
    x = strip_named(it.deref(st, args[0]))
    outs = []
    for s, v in it.fork_variants(st, x, ['Ok', 'Err'], info['site']):
        outs.append((s, SOME(variant_payload(x, 'Ok')) if v == 'Ok' else NONE))
    return outs

def m_option_map(it, st, args, info):
    x = strip_named(it.deref(st, args[0]))
    outs = []
    for s, v in it.fork_variants(st, x, ['Some', 'None'], info['site']):
        if v == 'None': outs.append((s, NONE)); continue
        for s2, r in it.apply_callable(s, args[1], [variant_payload(x, 'Some')], info['site']):
            outs.append((s2, SOME(r)))
    return outs

def m_option_transpose(it, st, args, info):
    """Option<Result<T, E>> -> Result<Option<T>, E>"""
    x = strip_named(it.deref(st, args[0])); outs = []
    for s, v in it.fork_variants(st, x, ['Some', 'None'], info['site']):
        if v == 'None': outs.append((s, OK(NONE))); continue
        r = strip_named(variant_payload(x, 'Some'))
        for s2, v2 in it.fork_variants(s, r, ['Ok', 'Err'], info['site']):
            outs.append((s2, OK(SOME(variant_payload(r, 'Ok'))) if v2 == 'Ok' else ERR(variant_payload(r, 'Err'))))
    return outs

def m_result_transpose(it, st, args, info):
    """Result<Option<T>, E> -> Option<Result<T, E>>"""
    x = strip_named(it.deref(st, args[0])); outs = []
    for s, v in it.fork_variants(st, x, ['Ok', 'Err'], info['site']):
        if v == 'Err': outs.append((s, SOME(ERR(variant_payload(x, 'Err'))))); continue
        r = strip_named(variant_payload(x, 'Ok'))
        for s2, v2 in it.fork_variants(s, r, ['Some', 'None'], info['site']):
            outs.append((s2, SOME(OK(variant_payload(r, 'Some'))) if v2 == 'Some' else NONE))
    return outs

def m_option_flatten(it, st, args, info):
    x = strip_named(it.deref(st, args[0])); outs = []
    for s, v in it.fork_variants(st, x, ['Some', 'None'], info['site']):
        outs.append((s, NONE if v == 'None' else variant_payload(x, 'Some')))
    return outs

def m_result_map(it, st, args, info):
    x = strip_named(it.deref(st, args[0]))
    outs = []
    for s, v in it.fork_variants(st, x, ['Ok', 'Err'], info['site']):
        if v == 'Err': outs.append((s, ERR(variant_payload(x, 'Err')))); continue
        for s2, r in it.apply_callable(s, args[1], [variant_payload(x, 'Ok')], info['site']):
            outs.append((s2, OK(r)))
    return outs

def mk_unwrap_or(okv, badv, mode):
    # mode: 'value' (unwrap_or), 'else' (unwrap_or_else: closure; Result passes the error), 'default'
    def m(it, st, args, info):
        x = strip_named(it.deref(st, args[0]))
        outs = []
        for s, v in it.fork_variants(st, x, [okv, badv], info['site']):
            if v == okv: outs.append((s, variant_payload(x, okv))); continue
            if mode == 'value': outs.append((s, args[1]))
            elif mode == 'default':
                d = default_of(info.get('dest_ty'))
                outs.append((s, d if d is not None else ('call', 'std::default::Default::default', (info.get('dest_ty') or '',), ())))
            else:
                cargs = [] if okv == 'Some' else [variant_payload(x, badv)]
                outs.extend(it.apply_callable(s, args[1], cargs, info['site']))
        return outs
    return m

def mk_and_then(okv, badv):
    def m(it, st, args, info):
        x = strip_named(it.deref(st, args[0]))
        outs = []
        for s, v in it.fork_variants(st, x, [okv, badv], info['site']):
            if v == okv: outs.extend(it.apply_callable(s, args[1], [variant_payload(x, okv)], info['site']))
            elif okv == 'Some': outs.append((s, NONE))
            else: outs.append((s, ERR(variant_payload(x, 'Err'))))
        return outs
    return m

def mk_or_else(okv, badv):
    def m(it, st, args, info):
        x = strip_named(it.deref(st, args[0]))
        outs = []
        for s, v in it.fork_variants(st, x, [okv, badv], info['site']):
            if v == okv: outs.append((s, SOME(variant_payload(x, okv)) if okv == 'Some' else OK(variant_payload(x, okv))))
            else: outs.extend(it.apply_callable(s, args[1], [] if okv == 'Some' else [variant_payload(x, badv)], info['site']))
        return outs
    return m

def mk_map_or(okv, badv, lazy):
    def m(it, st, args, info):
        x = strip_named(it.deref(st, args[0]))
        outs = []
        for s, v in it.fork_variants(st, x, [okv, badv], info['site']):
            if v == okv: outs.extend(it.apply_callable(s, args[2], [variant_payload(x, okv)], info['site']))
            elif lazy: outs.extend(it.apply_callable(s, args[1], [] if okv == 'Some' else [variant_payload(x, badv)], info['site']))
            else: outs.append((s, args[1]))
        return outs
    return m

def mk_is_and(okv, badv):
    def m(it, st, args, info):
        x = strip_named(it.deref(st, args[0]))
        outs = []
        for s, v in it.fork_variants(st, x, [okv, badv], info['site']):
            if v == okv: outs.extend(it.apply_callable(s, args[1], [variant_payload(x, okv)], info['site']))
            else: outs.append((s, FALSE))
        return outs
    return m

def m_ok_or_else_apply(it, st, args, info):
    x = strip_named(it.deref(st, args[0]))
    outs = []
    for s, v in it.fork_variants(st, x, ['Some', 'None'], info['site']):
        if v == 'Some': outs.append((s, OK(variant_payload(x, 'Some'))))
        else:
            for s2, r in it.apply_callable(s, args[1], [], info['site']): outs.append((s2, ERR(r)))
    return outs

def m_option_filter(it, st, args, info):
    x = strip_named(it.deref(st, args[0]))
    outs = []
    for s, v in it.fork_variants(st, x, ['Some', 'None'], info['site']):
        if v == 'None': outs.append((s, NONE)); continue
        val = variant_payload(x, 'Some')
        slot = ('tmpval', id(info), s.nfork)
        for s2, r in it.apply_callable(s, args[1], [val], info['site']):
            r = strip_named(r)
            for s3, b in branch_bool(it, s2, r, info['site']):
                outs.append((s3, SOME(val) if b else NONE))
    return outs

def branch_bool(it, st, r, site):
    """fork on a boolean term: [(state, bool)]"""
    if r[0] == 'c' and isinstance(r[1], bool): return [(st, r[1])]
    res = []
    for s, bb in it.branch(st, r, [('0', 0)], 1, site, 'bool'):
        res.append((s, bool(bb)))
    return res

def m_option_take(it, st, args, info):
    a = args[0]
    cur = strip_named(it.deref(st, a))
    if a[0] == 'ref': it.write_addr(st, a[1], NONE)
    return cur

def m_option_replace(it, st, args, info):
    a = args[0]
    cur = strip_named(it.deref(st, a))
    if a[0] == 'ref': it.write_addr(st, a[1], SOME(args[1]))
    return cur

def m_bool_then_some(it, st, args, info):
    b = strip_named(it.deref(st, args[0]))
    return [(s, SOME(args[1]) if v else NONE) for s, v in branch_bool(it, st, b, info['site'])]

def m_bool_then(it, st, args, info):
    b = strip_named(it.deref(st, args[0]))
    outs = []
    for s, v in branch_bool(it, st, b, info['site']):
        if not v: outs.append((s, NONE)); continue
        for s2, r in it.apply_callable(s, args[1], [], info['site']): outs.append((s2, SOME(r)))
    return outs

def m_result_err(it, st, args, info):
    x = strip_named(it.deref(st, args[0]))
    return [(s, SOME(variant_payload(x, 'Err')) if v == 'Err' else NONE) for s, v in it.fork_variants(st, x, ['Ok', 'Err'], info['site'])]

def m_option_zip(it, st, args, info):
    x = strip_named(it.deref(st, args[0])); y = strip_named(it.deref(st, args[1]))
    outs = []
    for s, v in it.fork_variants(st, x, ['Some', 'None'], info['site']):
        if v == 'None': outs.append((s, NONE)); continue
        for s2, w in it.fork_variants(s, y, ['Some', 'None'], info['site']):
            outs.append((s2, SOME(('tup', (variant_payload(x, 'Some'), variant_payload(y, 'Some')))) if w == 'Some' else NONE))
    return outs

def default_of(ty):
    ty = (ty or '').strip()
    if ty in ('cosmwasm_std::Uint128', 'u128', 'u64', 'u32', 'usize', 'i32', 'i64', 'i128', 'u8', 'u16', 'rust_decimal::Decimal'): return C(0)
    if ty == 'std::string::String': return C('')
    if ty == 'bool': return FALSE
    if ty.startswith('std::vec::Vec<'): return ('vec', ())
    if ty.startswith('std::option::Option<'): return NONE
    return None

def m_default(it, st, args, info):
    d = default_of(info.get('dest_ty') or (info['targs'][0] if info.get('targs') else ''))
    return d

def m_option_or(it, st, args, info):
    x = strip_named(it.deref(st, args[0]))
    return [(s, SOME(variant_payload(x, 'Some')) if v == 'Some' else args[1]) for s, v in it.fork_variants(st, x, ['Some', 'None'], info['site'])]

def m_as_ref(it, st, args, info):
    """Option::as_ref / as_mut (also Result::as_ref): the payload is a reference INTO the original place, so writes through it are seen"""
    a = args[0]
    if a[0] != 'ref': return it.deref(st, a)
    x = strip_named(it.read_addr(st, a[1]))
    is_res = 'Result' in info['name']
    okv, badv = ('Ok', 'Err') if is_res else ('Some', 'None')
    outs = []
    for s, v in it.fork_variants(st, x, [okv, badv], info['site']):
        uid, local, path = a[1]
        inner = ('ref', (uid, local, path + (('v', v, '0'),)))
        if is_res: outs.append((s, OK(inner) if v == 'Ok' else ERR(inner)))
        else: outs.append((s, SOME(inner) if v == 'Some' else NONE))
    return outs

def m_mem_take(it, st, args, info):
    a = args[0]; cur = strip_named(it.deref(st, a))
    if a[0] == 'ref': it.write_addr(st, a[1], ('call', 'std::default::Default::default', tuple(info['targs']), ()))
    return cur
def m_mem_replace(it, st, args, info):
    a = args[0]; cur = strip_named(it.deref(st, a))
    if a[0] == 'ref': it.write_addr(st, a[1], args[1])
    return cur
def m_mem_swap(it, st, args, info):
    a, b = args[0], args[1]
    va, vb = it.deref(st, a), it.deref(st, b)
    if a[0] == 'ref': it.write_addr(st, a[1], vb)
    if b[0] == 'ref': it.write_addr(st, b[1], va)
    return UNIT

def mk_unwrap(okv, badv):
    def m(it, st, args, info):
        x = strip_named(it.deref(st, args[0]))
        outs = []
        for s, v in it.fork_variants(st, x, [okv, badv], info['site']):
            if v == okv: outs.append((s, variant_payload(x, okv)))
            else: it.record_exit(s, 'abort', info['site'], ('unwrap', x))
        return outs
    return m

def mk_is(variant, names):
    def m(it, st, args, info):
        x = strip_named(it.deref(st, args[0]))
        return [(s, C(v == variant)) for s, v in it.fork_variants(st, x, names, info['site'])]
    return m

# ---------------------------------------------------------------- comparisons (never inlined)
def d2(it, st, args):
    return strip_named(it.deref(st, args[0])), strip_named(it.deref(st, args[1]))

def m_eq(it, st, args, info): a, b = d2(it, st, args); return mk_eq(a, b)
def m_ne(it, st, args, info): a, b = d2(it, st, args); return mk_not(mk_eq(a, b))
def m_lt(it, st, args, info): a, b = d2(it, st, args); return ('lt', a, b)
def m_gt(it, st, args, info): a, b = d2(it, st, args); return ('lt', b, a)
def m_le(it, st, args, info): a, b = d2(it, st, args); return mk_not(('lt', b, a))
def m_ge(it, st, args, info): a, b = d2(it, st, args); return mk_not(('lt', a, b))
def m_cmp(it, st, args, info): a, b = d2(it, st, args); return ('ordcmp', a, b)

def m_not(it, st, args, info):
    return mk_not(strip_named(it.deref(st, args[0])))

def m_pred(name):
    def m(it, st, args, info):
        return ('call', name, (), tuple(strip_named(it.deref(st, a)) for a in args))
    return m

# ---------------------------------------------------------------- conversions
TRANSPARENT_CONV = {
    ('&str', 'std::string::String'), ('cosmwasm_std::Uint128', 'u128'), ('u128', 'cosmwasm_std::Uint128'),
    ('cosmwasm_std::Addr', 'std::string::String'), ('std::string::String', 'std::string::String'),
    ('&std::string::String', 'std::string::String'), ("&'static str", 'std::string::String'),
}
def norm_ty(t):
    t = re.sub(r"&'[a-z_]+ ", '&', t)
    return t

def m_into(it, st, args, info):
    ta = [norm_ty(x) for x in info['targs']]
    v = strip_named(it.deref(st, args[0])) if args[0][0] != 'ref' else args[0]
    if len(ta) >= 2:
        src, dst = ta[0], ta[1]
        if src == dst: return args[0]
        if (src, dst) in TRANSPARENT_CONV: return it.deref(st, args[0])
        # crate-local From impl?  <dst as From<src>>
        key = '<%s as std::convert::From<%s>>' % (dst, src)
        impl = it.p.impls.get(key)
        if impl and 'from' in impl:
            return it.inline(st, impl['from'], [args[0]], (), info['site'])
        return ('call', 'conv', (src, dst), (it.deref(st, args[0]),))
    return None

def m_from(it, st, args, info):
    # resolved impl: `<Dst as From<Src>>::from`, targs are the impl's generic args (often empty)
    m = re.match(r'^<(.+) as std::convert::From<(.+)>>::from$', info['name'])
    if m:
        dst, src = norm_ty(m.group(1)), norm_ty(m.group(2))
        if dst == 'T' and src == 'T': return args[0]
        if (src, dst) in TRANSPARENT_CONV: return it.deref(st, args[0])
        return ('call', 'conv', (src, dst), (it.deref(st, args[0]),))
    ta = [norm_ty(x) for x in info['targs']]
    if len(ta) >= 2:
        dst, src = ta[0], ta[1]
        if src == dst: return args[0]
        if (src, dst) in TRANSPARENT_CONV: return it.deref(st, args[0])
        return ('call', 'conv', (src, dst), (it.deref(st, args[0]),))
    return None

# ---------------------------------------------------------------- collections
def m_vec_new(it, st, args, info): return ('vec', ())

def m_vec_push(it, st, args, info):
    a = args[0]
    if a[0] == 'ref':
        cur = strip_named(it.read_addr(st, a[1]))
        if cur[0] == 'vec': it.write_addr(st, a[1], ('vec', cur[1] + (args[1],)))
        else: it.write_addr(st, a[1], ('pushed', cur, args[1]))
    return UNIT

def m_vec_extend(it, st, args, info):
    a = args[0]
    if a[0] == 'ref':
        cur = strip_named(it.read_addr(st, a[1]))
        other = strip_named(it.deref(st, args[1]))
        if other[0] in ('iter', 'iterpos'): other = other[1] if other[0] == 'iter' else other[1][1]
        if cur[0] == 'vec' and other[0] == 'vec': it.write_addr(st, a[1], ('vec', cur[1] + other[1]))
        else: it.write_addr(st, a[1], ('extended', cur, other))
        if info['name'].endswith('::append') and args[1][0] == 'ref': it.write_addr(st, args[1][1], ('vec', ()))
    return UNIT

def m_vec_len(it, st, args, info):
    v = strip_named(it.deref(st, args[0]))
    if v[0] == 'vec': return C(len(v[1]))
    return ('len', v)

def m_is_empty(it, st, args, info):
    v = strip_named(it.deref(st, args[0]))
    if v[0] == 'vec': return C(len(v[1]) == 0)
    if v[0] == 'c' and isinstance(v[1], str): return C(len(v[1]) == 0)
    return ('call', 'is_empty', (), (v,))

def m_box_new_uninit(it, st, args, info): return ('boxuninit',)

def m_box_into_vec(it, st, args, info):
    b = it.deref(st, args[0])
    arr = get_path(b, (('f', 'value'), ('f', 'value'), ('f', '0')))
    if arr[0] == 'arr': return ('vec', arr[1])
    # fall back: search one level of updates
    return ('vec_from_box', b)

def m_into_iter(it, st, args, info):
    return ('iter', it.deref(st, args[0]))

def m_slice_iter(it, st, args, info):
    return ('iter', strip_named(it.deref(st, args[0])))

def m_iter_next(it, st, args, info):
    a = args[0]
    itv = it.deref(st, a)
    st.iters += 1
    k = st.iters
    src = itv
    pos = 0
    if itv[0] == 'iterpos': src = itv[1]; pos = itv[2]
    if a[0] == 'ref': it.write_addr(st, a[1], ('iterpos', src, pos + 1))
    coll = src[1] if src[0] == 'iter' else src
    if coll[0] in ('vec', 'arr'):
        if pos < len(coll[1]): return SOME(coll[1][pos])
        return NONE
    return ('iternext', src, pos)

def mk_for_each(try_):
    """Iterator::for_each / try_for_each: the closure runs on the real path state for each element (its storage effects are part of
    the path), elements enumerated exactly like a `for` loop: a known vector completely, an unknown source through iternext(src, k)
    with a Some/None fork, at most 3 iterations."""
    def m(it, st, args, info):
        itv = strip_named(it.deref(st, args[0])); f = args[1]
        src, pos0 = (itv[1], itv[2]) if itv[0] == 'iterpos' else (itv, 0)
        coll = src[1] if src[0] == 'iter' else src
        results = []; work = [(st, pos0, 0)]
        while work:
            s, p, n = work.pop()
            elems = []
            if coll[0] in ('vec', 'arr'):
                if p >= len(coll[1]): results.append((s, OK(UNIT) if try_ else UNIT)); continue
                elems.append((s, coll[1][p]))
            else:
                if n >= 3: continue
                x = ('iternext', src, p)
                for s2, v in it.fork_variants(s, x, ['Some', 'None'], info['site']):
                    if v == 'None': results.append((s2, OK(UNIT) if try_ else UNIT))
                    else: elems.append((s2, variant_payload(x, 'Some')))
            for s2, e in elems:
                for s3, r in it.apply_callable(s2, f, [e], info['site']):
                    if not try_: work.append((s3, p + 1, n + 1)); continue
                    r = strip_named(it.deref(s3, r))
                    is_opt = r[0] == 'adt' and r[1].endswith('Option')
                    okv, errv = ('Some', 'None') if is_opt else ('Ok', 'Err')
                    for s4, v in it.fork_variants(s3, r, [okv, errv], info['site']):
                        if v == okv: work.append((s4, p + 1, n + 1))
                        else: results.append((s4, r))
        return results
    return m

def _known_elems(itv):
    """elements of an iterator over a collection whose elements are all known, else None"""
    src, pos = (itv[1], itv[2]) if itv[0] == 'iterpos' else (itv, 0)
    coll = src[1] if src[0] == 'iter' else src
    if coll[0] in ('vec', 'arr'): return list(coll[1][pos:])
    return None

def mk_iter_adaptor(kind):
    """map / filter / filter_map / any / all over an iterator whose elements are all known (array or vec literals, vectors built by
    push): the closure is applied element by element on the path state (forking on its outcome), as the loop would. Over an unknown
    source the call stays an opaque term with the closure summarised (the rules compose such pipelines themselves)."""
    def m(it, st, args, info):
        itv = strip_named(it.deref(st, args[0]))
        elems = _known_elems(itv)
        f = strip_named(it.deref(st, args[1])) if len(args) > 1 else None
        if elems is None or f is None or f[0] not in ('closure', 'fnitem'):
            if kind == 'any' and f is not None and f[0] == 'closure':
                # x.iter().any(|_| true) is `!x.is_empty()`
                lam = it.snapshot(st, f, info['site'])
                if lam[0] == 'lambda' and len(lam[3]) == 1 and not lam[3][0][0] and lam[3][0][1] == TRUE:
                    src = itv[1] if itv[0] == 'iter' else itv
                    return mk_not(('call', 'is_empty', (), (src,)))
            return it.opaque_call(st, info, args)
        states = [(st, [])]
        for e in elems:
            nxt = []
            for s, acc in states:
                if acc is None: nxt.append((s, acc)); continue      # short-circuited (any / all)
                for s2, r in it.apply_callable(s, args[1], [e], info['site']):
                    r = strip_named(it.deref(s2, r))
                    if kind == 'map': nxt.append((s2, acc + [r]))
                    elif kind == 'filter_map':
                        for s3, v in it.fork_variants(s2, r, ['Some', 'None'], info['site']):
                            nxt.append((s3, acc + [variant_payload(r, 'Some')] if v == 'Some' else acc))
                    else:
                        for s3, b in branch_bool(it, s2, r, info['site']):
                            if kind == 'filter': nxt.append((s3, acc + [e] if b else acc))
                            elif kind == 'any': nxt.append((s3, None if b else acc))
                            else: nxt.append((s3, acc if b else None))
            states = nxt
        if kind in ('any', 'all'):
            return [(s, C((acc is None) if kind == 'any' else (acc is not None))) for s, acc in states]
        return [(s, ('iter', ('vec', tuple(acc)))) for s, acc in states]
    return m

def mk_lt(a, b):
    if a[0] == 'c' and b[0] == 'c' and not isinstance(a[1], (bool, str)) and not isinstance(b[1], (bool, str)): return C(a[1] < b[1])
    return ('lt', a, b)

def m_range_contains(it, st, args, info):
    """(lo..=hi).contains(&x) / (lo..hi).contains(&x): decided by the two comparisons, forking like the written-out test would"""
    r = strip_named(it.deref(st, args[0])); x = strip_named(it.deref(st, args[1]))
    if r[0] == 'call' and str(r[1]).endswith('RangeInclusive::<Idx>::new') and len(r[3]) == 2:
        lo, hi = strip_named(r[3][0]), strip_named(r[3][1])
    elif r[0] == 'adt' and len(r[3]) >= 2:
        d = dict(r[3]); lo = d.get('start'); hi = d.get('end')
    else: return it.opaque_call(st, info, args)
    if lo is None or hi is None: return it.opaque_call(st, info, args)
    inclusive = 'RangeInclusive' in r[1]
    outs = []
    unsigned = any(str(t).lstrip('&') in ('u8', 'u16', 'u32', 'u64', 'u128', 'usize') for t in (info.get('targs') or ()))
    below_term = FALSE if (unsigned and lo == C(0)) else mk_lt(x, lo)      # an unsigned value is never below 0
    for s, below in branch_bool(it, st, below_term, info['site']):
        if below: outs.append((s, FALSE)); continue
        above = mk_lt(hi, x) if inclusive else mk_not(mk_lt(x, hi))
        if inclusive and hi[0] == 'konst' and str(hi[1]).endswith('::MAX'): above = FALSE      # nothing exceeds the type's maximum
        for s2, ab in branch_bool(it, s, above, info['site']):
            outs.append((s2, FALSE if ab else TRUE))
    return outs

def m_collect(it, st, args, info):
    return ('call', 'collect', (info.get('dest_ty') or '',), (it.snapshot(st, args[0], info['site']),))

# ---------------------------------------------------------------- storage (cw_storage_plus)
def map_ns(it, st, m):
    m = strip_named(it.deref(st, m))
    if m[0] == 'call' and m[1].startswith('cw_storage_plus::') and m[3]:
        ns = strip_named(m[3][0])
        if ns[0] == 'c': return ns[1]
        return ns
    return ('unknown_ns', m)

def m_storage_new(kind):
    def m(it, st, args, info):
        return ('call', 'cw_storage_plus::%s::new' % kind, info['targs'], tuple(strip_named(it.deref(st, a)) for a in args))
    return m

def key_of(it, st, k):
    return strip_named(it.deref(st, k))

def nsv(st, ns):
    """number of writes to namespace ns so far on this path (reads between two writes see the same record)"""
    return dict(st.wver).get(ns if isinstance(ns, str) else repr(ns), 0)
def bump(st, ns):
    d = dict(st.wver); k = ns if isinstance(ns, str) else repr(ns)
    d[k] = d.get(k, 0) + 1; d['*'] = d.get('*', 0) + 1
    st.wver = tuple(sorted(d.items()))
    return d['*']

def eff(st, rec):
    # (op, ns, key, value, result-term, site, stack, number of facts held when the effect happened)
    st.effects.append(rec + (st.stack, len(st.facts)))

def m_map_load(it, st, args, info):
    ns = map_ns(it, st, args[0]); key = key_of(it, st, args[2])
    t = ('sload', ns, key, 'load', nsv(st, ns), info['targs'])
    eff(st, ('read', ns, key, 'load', t, info['site']))
    return t
def m_map_may_load(it, st, args, info):
    ns = map_ns(it, st, args[0]); key = key_of(it, st, args[2])
    t = ('sload', ns, key, 'may_load', nsv(st, ns), info['targs'])
    eff(st, ('read', ns, key, 'may_load', t, info['site']))
    return t
def m_item_load(it, st, args, info):
    ns = map_ns(it, st, args[0])
    t = ('sload', ns, None, 'load', nsv(st, ns), info['targs'])
    eff(st, ('read', ns, None, 'load', t, info['site']))
    return t
def m_item_may_load(it, st, args, info):
    ns = map_ns(it, st, args[0])
    t = ('sload', ns, None, 'may_load', nsv(st, ns), info['targs'])
    eff(st, ('read', ns, None, 'may_load', t, info['site']))
    return t
def do_save(it, st, ns, key, val, site):
    n = bump(st, ns)
    r = ('sres', 'save', ns, key, n)
    eff(st, ('save', ns, key, val, r, site))
    return r
def m_map_save(it, st, args, info):
    ns = map_ns(it, st, args[0]); key = key_of(it, st, args[2])
    return do_save(it, st, ns, key, strip_named(it.deref(st, args[3])), info['site'])
def m_item_save(it, st, args, info):
    ns = map_ns(it, st, args[0])
    return do_save(it, st, ns, None, strip_named(it.deref(st, args[2])), info['site'])
def m_map_remove(it, st, args, info):
    ns = map_ns(it, st, args[0]); key = key_of(it, st, args[2])
    bump(st, ns)
    # the in-memory record(s) of the map's value type held by the caller when the key is retired
    cands = []
    fr = info.get('frame'); targs = info.get('targs') or ()
    vty = targs[-1] if targs else None
    if fr is not None and vty:
        for i, l in enumerate(fr.body['locals']):
            if l['ty'] in (vty, '&' + vty, '&mut ' + vty) or (l['ty'].startswith("&'") and l['ty'].split(' ', 1)[-1].replace('mut ', '') == vty):
                v = st.mem.get((fr.uid, i))
                if v is not None and v[0] != 'undef':
                    c = strip_named(it.deref(st, v))
                    if c[0] != 'undef' and c not in cands: cands.append(c)
    if not cands and vty:
        # the removal sits in a helper that only receives the key: look for the record of this namespace held anywhere on the call stack
        def is_rec(v, d=0):
            if not isinstance(v, tuple) or not v or d > 6: return False
            if v[0] == 'adt': return v[1] == vty
            if v[0] == 'upd': return is_rec(v[1], d + 1)
            if v[0] == 'named': return is_rec(v[2], d + 1)
            if v[0] == 'v': return isinstance(v[1], tuple) and v[1] and v[1][0] == 'sload' and v[1][1] == ns and v[2] == 'Ok' and (v[1][5][-1] == vty if len(v[1]) > 5 and v[1][5] else False)
            return False
        for k_ in sorted(st.mem, key=repr):
            v = st.mem[k_]
            if is_rec(v):
                c = strip_named(v)
                if c not in cands: cands.append(c)
    eff(st, ('remove', ns, key, ('tup', tuple(cands)), None, info['site']))
    return UNIT
def m_map_update(it, st, args, info):
    # cw-storage-plus 1.1.0 path.rs: input = may_load(store)?; output = action(input)?; save(store,&output)?; Ok(output)
    ns = map_ns(it, st, args[0]); key = key_of(it, st, args[2])
    t = ('sload', ns, key, 'may_load', nsv(st, ns), info['targs'])
    eff(st, ('read', ns, key, 'may_load(update)', t, info['site']))
    outs = []
    for s, v in it.fork_variants(st, t, ['Ok', 'Err'], info['site']):
        if v == 'Err':
            outs.append((s, ERR(('call', 'std::convert::From::from', (), (variant_payload(t, 'Err'),))))); continue
        inp = variant_payload(t, 'Ok')
        for s2, r in it.apply_callable(s, args[3], [inp], info['site']):
            r = strip_named(r)
            for s3, v3 in it.fork_variants(s2, r, ['Ok', 'Err'], info['site']):
                if v3 == 'Err': outs.append((s3, ERR(variant_payload(r, 'Err')))); continue
                out = variant_payload(r, 'Ok')
                sr = do_save(it, s3, ns, key, out, info['site'])
                for s4, v4 in it.fork_variants(s3, sr, ['Ok', 'Err'], info['site']):
                    if v4 == 'Err': outs.append((s4, ERR(('call', 'std::convert::From::from', (), (variant_payload(sr, 'Err'),)))))
                    else: outs.append((s4, OK(out)))
    return outs
def m_map_is_empty(it, st, args, info):
    ns = map_ns(it, st, args[0])
    t = ('call', 'storage_is_empty', (), (C(ns) if isinstance(ns, str) else ns, C(nsv(st, ns))))
    eff(st, ('read', ns, None, 'is_empty', t, info['site']))
    return t
def m_map_range(it, st, args, info):
    ns = map_ns(it, st, args[0])
    t = ('srange', ns, nsv(st, ns), info['targs'])
    eff(st, ('read', ns, None, 'range', t, info['site']))
    return t

# ---------------------------------------------------------------- Response
def m_resp_new(it, st, args, info): return ('resp', (), ())
def as_resp(r):
    r = strip_named(r)
    if r[0] == 'resp': return r
    return ('resp', (('opaque_base', r),), (('opaque_base', r),))
def m_add_message(it, st, args, info):
    r = as_resp(it.deref(st, args[0]))
    return ('resp', r[1] + (('msg', strip_named(it.deref(st, args[1])), info['site'], st.stack, info['targs'], len(st.facts)),), r[2])
def m_add_submessage(it, st, args, info):
    r = as_resp(it.deref(st, args[0]))
    return ('resp', r[1] + (('submsg', strip_named(it.deref(st, args[1])), info['site'], st.stack, info['targs']),), r[2])
def m_add_attribute(it, st, args, info):
    r = as_resp(it.deref(st, args[0]))
    return ('resp', r[1], r[2] + (('attr', strip_named(it.deref(st, args[1])), strip_named(it.deref(st, args[2])), info['site']),))
def m_add_attributes(it, st, args, info):
    r = as_resp(it.deref(st, args[0]))
    v = strip_named(it.deref(st, args[1]))
    attrs = r[2]
    if v[0] == 'vec':
        for a in v[1]:
            a = strip_named(a)
            if a[0] == 'call' and a[1] == 'cosmwasm_std::attr':
                attrs = attrs + (('attr', a[3][0], a[3][1], info['site']),)
            else:
                attrs = attrs + (('attr_opaque', a, None, info['site']),)
    else:
        attrs = attrs + (('attrs_opaque', v, None, info['site']),)
    return ('resp', r[1], attrs)

def m_attr(it, st, args, info):
    return ('call', 'cosmwasm_std::attr', (), tuple(strip_named(it.deref(st, a)) for a in args))

# ---------------------------------------------------------------- arithmetic on Uint128 that can abort
def mk_uint_op(op):
    def m(it, st, args, info):
        a, b = d2(it, st, args)
        t = ('bin', op, a, b)
        # panics on overflow/underflow: an abort exit at this site, success continues
        it.record_exit(st, 'abort', info['site'], ('uint_' + op, a, b))
        return t
    return m
def mk_uint_assign(op):
    def m(it, st, args, info):
        a = args[0]
        cur = strip_named(it.deref(st, a)); b = strip_named(it.deref(st, args[1]))
        it.record_exit(st, 'abort', info['site'], ('uint_' + op, cur, b))
        if a[0] == 'ref': it.write_addr(st, a[1], ('bin', op, cur, b))
        return UNIT
    return m

def m_closure_call(it, st, args, info):
    """<closure as Fn*>::call*(closure, (args..)): apply the closure (crate-local body, inlined)"""
    f = args[0]
    tup = strip_named(it.deref(st, args[1])) if len(args) > 1 else UNIT
    cargs = list(tup[1]) if tup[0] == 'tup' else ([] if tup == UNIT else [tup])
    return it.apply_callable(st, f, cargs, info['site'])

def m_pure(it, st, args, info):
    """opaque pure call on dereferenced values (no &mut havoc)"""
    return ('call', info['name'], info['targs'], tuple(it.snapshot(st, a, info['site']) for a in args))

# ---------------------------------------------------------------- table
EXACT = {
    'std::clone::Clone::clone': m_identity,
    'std::borrow::ToOwned::to_owned': m_identity,
    'std::ops::Deref::deref': m_identity_keepref,
    'std::ops::DerefMut::deref_mut': m_identity_keepref,
    'std::convert::AsRef::as_ref': m_identity_keepref,
    'std::borrow::Borrow::borrow': m_identity_keepref,
    'std::string::String::as_str': m_identity,
    'std::string::String::as_bytes': m_identity,
    'core::str::<impl str>::as_bytes': m_identity,
    'core::str::<impl str>::as_str': m_identity,
    'std::vec::Vec::<T, A>::as_slice': m_identity,
    'cosmwasm_std::Uint128::u128': m_identity,
    'cosmwasm_std::Uint128::new': m_identity,
    'cosmwasm_std::Addr::into_string': m_identity,
    'cosmwasm_std::Addr::to_string': m_identity,
    'cosmwasm_std::Addr::as_str': m_identity,
    'std::hint::must_use': m_identity,
    'std::ops::Try::branch': m_try_branch,
    'std::ops::FromResidual::from_residual': m_from_residual,
    'std::option::Option::<T>::ok_or': m_ok_or,
    'std::option::Option::<T>::ok_or_else': m_ok_or_else_apply,
    'std::result::Result::<T, E>::map_err': m_map_err,
    'std::result::Result::<T, E>::ok': m_result_ok,
    'std::result::Result::<T, E>::map': m_result_map,
    'std::option::Option::<T>::map': m_option_map,
    'std::option::Option::<std::result::Result<T, E>>::transpose': m_option_transpose,
    'std::result::Result::<std::option::Option<T>, E>::transpose': m_result_transpose,
    'std::option::Option::<std::option::Option<T>>::flatten': m_option_flatten,
    'std::option::Option::<T>::unwrap_or': mk_unwrap_or('Some', 'None', 'value'),
    'std::option::Option::<T>::unwrap_or_else': mk_unwrap_or('Some', 'None', 'else'),
    'std::option::Option::<T>::unwrap_or_default': mk_unwrap_or('Some', 'None', 'default'),
    'std::result::Result::<T, E>::unwrap_or': mk_unwrap_or('Ok', 'Err', 'value'),
    'std::result::Result::<T, E>::unwrap_or_else': mk_unwrap_or('Ok', 'Err', 'else'),
    'std::result::Result::<T, E>::unwrap_or_default': mk_unwrap_or('Ok', 'Err', 'default'),
    'std::option::Option::<T>::and_then': mk_and_then('Some', 'None'),
    'std::result::Result::<T, E>::and_then': mk_and_then('Ok', 'Err'),
    'std::option::Option::<T>::or_else': mk_or_else('Some', 'None'),
    'std::result::Result::<T, E>::or_else': mk_or_else('Ok', 'Err'),
    'std::option::Option::<T>::map_or': mk_map_or('Some', 'None', False),
    'std::option::Option::<T>::map_or_else': mk_map_or('Some', 'None', True),
    'std::result::Result::<T, E>::map_or': mk_map_or('Ok', 'Err', False),
    'std::result::Result::<T, E>::map_or_else': mk_map_or('Ok', 'Err', True),
    'std::option::Option::<T>::is_some_and': mk_is_and('Some', 'None'),
    'std::result::Result::<T, E>::is_ok_and': mk_is_and('Ok', 'Err'),
    'std::mem::take': m_mem_take, 'std::mem::replace': m_mem_replace, 'std::mem::swap': m_mem_swap,
    'std::option::Option::<T>::filter': m_option_filter,
    'std::option::Option::<T>::take': m_option_take,
    'std::option::Option::<T>::replace': m_option_replace,
    'std::option::Option::<T>::or': m_option_or,
    'std::option::Option::<T>::zip': m_option_zip,
    'std::default::Default::default': m_default,
    'core::bool::<impl bool>::then_some': m_bool_then_some,
    'core::bool::<impl bool>::then': m_bool_then,
    'std::result::Result::<T, E>::err': m_result_err,
    'std::option::Option::<T>::as_ref': m_as_ref, 'std::option::Option::<T>::as_mut': m_as_ref,
    'std::option::Option::<T>::as_deref': m_as_ref, 'std::option::Option::<T>::as_deref_mut': m_as_ref,      # Vec -> slice / String -> str derefs are transparent
    'std::option::Option::<&T>::cloned': m_as_ref, 'std::option::Option::<&T>::copied': m_as_ref,
    'std::result::Result::<T, E>::as_ref': m_as_ref,
    'std::option::Option::<T>::unwrap': mk_unwrap('Some', 'None'),
    'std::option::Option::<T>::expect': mk_unwrap('Some', 'None'),
    'std::result::Result::<T, E>::unwrap': mk_unwrap('Ok', 'Err'),
    'std::result::Result::<T, E>::expect': mk_unwrap('Ok', 'Err'),
    'std::option::Option::<T>::is_some': mk_is('Some', ['Some', 'None']),
    'std::option::Option::<T>::is_none': mk_is('None', ['Some', 'None']),
    'std::result::Result::<T, E>::is_ok': mk_is('Ok', ['Ok', 'Err']),
    'std::result::Result::<T, E>::is_err': mk_is('Err', ['Ok', 'Err']),
    'std::cmp::PartialEq::eq': m_eq, 'std::cmp::PartialEq::ne': m_ne,
    'std::cmp::PartialOrd::lt': m_lt, 'std::cmp::PartialOrd::gt': m_gt,
    'std::cmp::PartialOrd::le': m_le, 'std::cmp::PartialOrd::ge': m_ge,
    'std::cmp::Ord::cmp': m_cmp,
    'std::ops::Not::not': m_not,
    'std::convert::Into::into': m_into,
    'std::convert::From::from': m_from,
    'std::vec::Vec::<T>::new': m_vec_new,
    'std::vec::Vec::<T, A>::push': m_vec_push,
    'std::iter::Extend::extend': m_vec_extend, 'std::vec::Vec::<T, A>::append': m_vec_extend, 'std::vec::Vec::<T, A>::extend_from_slice': m_vec_extend,
    'std::vec::Vec::<T, A>::len': m_vec_len,
    'std::vec::Vec::<T, A>::is_empty': m_is_empty,
    'core::slice::<impl [T]>::is_empty': m_is_empty,
    'std::string::String::is_empty': m_is_empty,
    'core::str::<impl str>::is_empty': m_is_empty,
    'std::boxed::Box::<T>::new_uninit': m_box_new_uninit,
    'std::boxed::box_assume_init_into_vec_unsafe': m_box_into_vec,
    'std::iter::IntoIterator::into_iter': m_into_iter,
    'core::slice::<impl [T]>::iter': m_slice_iter,
    'std::iter::Iterator::next': m_iter_next,
    'std::iter::Iterator::collect': m_collect,
    'std::iter::Iterator::map': mk_iter_adaptor('map'), 'std::iter::Iterator::filter': mk_iter_adaptor('filter'),
    'std::iter::Iterator::filter_map': mk_iter_adaptor('filter_map'),
    'std::iter::Iterator::any': mk_iter_adaptor('any'), 'std::iter::Iterator::all': mk_iter_adaptor('all'),
    'std::ops::RangeInclusive::<Idx>::contains': m_range_contains, 'std::ops::Range::<Idx>::contains': m_range_contains,
    'std::iter::Iterator::cloned': m_identity, 'std::iter::Iterator::copied': m_identity,      # element-wise copies: same sequence
    'std::iter::Iterator::for_each': mk_for_each(False),
    'std::iter::Iterator::try_for_each': mk_for_each(True),
    'cw_storage_plus::Map::<\'a, K, T>::new': m_storage_new('Map'),
    'cw_storage_plus::Item::<\'a, T>::new': m_storage_new('Item'),
    'cw_storage_plus::Map::<\'a, K, T>::load': m_map_load,
    'cw_storage_plus::Map::<\'a, K, T>::may_load': m_map_may_load,
    'cw_storage_plus::Map::<\'a, K, T>::save': m_map_save,
    'cw_storage_plus::Map::<\'a, K, T>::remove': m_map_remove,
    'cw_storage_plus::Map::<\'a, K, T>::update': m_map_update,
    'cw_storage_plus::Map::<\'a, K, T>::is_empty': m_map_is_empty,
    'cw_storage_plus::Map::<\'a, K, T>::range': m_map_range,
    'cw_storage_plus::Item::<\'a, T>::load': m_item_load,
    'cw_storage_plus::Item::<\'a, T>::may_load': m_item_may_load,
    'cw_storage_plus::Item::<\'a, T>::save': m_item_save,
    'cosmwasm_std::Response::<T>::new': m_resp_new,
    'cosmwasm_std::Response::<T>::add_message': m_add_message,
    'cosmwasm_std::Response::<T>::add_submessage': m_add_submessage,
    'cosmwasm_std::Response::<T>::add_attribute': m_add_attribute,
    'cosmwasm_std::Response::<T>::add_attributes': m_add_attributes,
    'cosmwasm_std::attr': m_attr,
    'std::ops::FnOnce::call_once': m_closure_call, 'std::ops::FnMut::call_mut': m_closure_call, 'std::ops::Fn::call': m_closure_call,
    'std::ops::Sub::sub': mk_uint_op('Sub'), 'std::ops::Add::add': mk_uint_op('Add'),
    'std::ops::Mul::mul': mk_uint_op('Mul'), 'std::ops::Div::div': mk_uint_op('Div'),
    'std::ops::Rem::rem': mk_uint_op('Rem'),
    'std::ops::SubAssign::sub_assign': mk_uint_assign('Sub'), 'std::ops::AddAssign::add_assign': mk_uint_assign('Add'),
}

def m_raw_storage_set(it, st, args, info):
    bump(st, '<raw>')
    eff(st, ('save', '<raw>', key_of(it, st, args[1]), strip_named(it.deref(st, args[2])) if len(args) > 2 else None, None, info['site']))
    return UNIT
def m_raw_storage_remove(it, st, args, info):
    bump(st, '<raw>')
    eff(st, ('remove', '<raw>', key_of(it, st, args[1]), ('tup', ()), None, info['site']))
    return UNIT
EXACT['cosmwasm_std::Storage::set'] = m_raw_storage_set
EXACT['cosmwasm_std::Storage::remove'] = m_raw_storage_remove

HANDWRITTEN_SENSITIVE = {'std::cmp::PartialEq::eq', 'std::cmp::PartialEq::ne', 'std::cmp::PartialOrd::lt', 'std::cmp::PartialOrd::gt', 'std::cmp::PartialOrd::le',
                         'std::cmp::PartialOrd::ge', 'std::cmp::Ord::cmp', 'std::clone::Clone::clone', 'std::borrow::ToOwned::to_owned', 'std::ops::Not::not'}

# storage API present in cw_storage_plus but not used today: any other Map/Item method is reported
STORAGE_PREFIX = ('cw_storage_plus::',)

def lookup(it, info):
    orig = info['orig']       # the def as written (trait method path for trait calls)
    name = info['name']       # resolved def
    fn = info['fn']
    res = fn.get('res')
    # crate-local impls of comparison traits are never inlined; local Clone/ToOwned are transparent
    # default `ne` of a hand-written `eq`: inline eq and negate
    if orig == 'std::cmp::PartialEq::ne' and not (res and res.get('local')):
        st_ = (info.get('self_ty') or '').lstrip('&')
        impl = it.p.impls.get('<%s as std::cmp::PartialEq>' % st_)
        if impl and 'eq' in impl and impl['eq'].get('auto_derived') is False and 'ne' not in impl:
            eqb = impl['eq']
            def ne_via_eq(it_, st, args, info_):
                return [(s, mk_not(strip_named(r))) for s, r in it_.inline(st, eqb, list(args), (), info_['site'])]
            return ne_via_eq
    # ordering through a hand-written partial_cmp / cmp on a crate-local type: not structural -> opaque predicate
    if orig in ('std::cmp::PartialOrd::lt', 'std::cmp::PartialOrd::gt', 'std::cmp::PartialOrd::le', 'std::cmp::PartialOrd::ge') and not (res and res.get('local')):
        st_ = (info.get('self_ty') or '').lstrip('&')
        impl = it.p.impls.get('<%s as std::cmp::PartialOrd>' % st_)
        if impl and any(b.get('auto_derived') is False for b in impl.values()):
            return m_pure
    if orig in EXACT:
        # local impls: From/Into are inlined (see m_into / m_from); Not etc. cannot be local on foreign types
        if orig in ('std::convert::From::from',) and res and res.get('local'):
            return None
        # a crate-local Deref / DerefMut impl (newtype wrappers) is inlined: it returns a reference into the wrapper, not the wrapper
        if orig in ('std::ops::Deref::deref', 'std::ops::DerefMut::deref_mut') and res and res.get('local') and it.p.bodies.get(res['def']) is not None:
            return None
        # comparison / clone traits: derived impls are structural (modelled); a HAND-WRITTEN crate-local impl is inlined instead
        if orig in HANDWRITTEN_SENSITIVE and res and res.get('local'):
            body = it.p.bodies.get(res['def'])
            if body is not None and body.get('auto_derived') is False:
                return None
        if orig == 'std::string::ToString::to_string': pass
        return EXACT[orig]
    if name in EXACT: return EXACT[name]
    if orig == 'std::string::ToString::to_string':
        if res and res.get('local'): return None     # crate-local ToString impl: inline
        return m_pure
    if name.startswith(STORAGE_PREFIX) or orig.startswith(STORAGE_PREFIX):
        def unknown_storage(it_, st, args, info_):
            bump(st, '?')
            eff(st, ('unknown_storage_api', info_['name'], None, None, None, info_['site']))
            return ('call', info_['name'], info_['targs'], tuple(strip_named(it_.deref(st, a)) for a in args))
        return unknown_storage
    return None
