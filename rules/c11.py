"""C11 Order integrity: immutable terms, shrinking remainders, no interference (R-write, R-table monotone updates, R-inv I1/I3/I4, namespaces)."""
from engine import *
from money import *
from book import remove_iff_zero, record_base, persistence_identity
PROP = 'C11'
CB_PATH = (('f', 'class'), ('v', 'Convertible', 'status'), ('v', 'Ready', 'converted_base'))

# request kind -> set of (namespace, request id field) it may write
MAY_WRITE = {
    'CreateAsk': {('ask', 'id')}, 'ApproveAsk': {('ask', 'id')}, 'CancelAsk': {('ask', 'id')}, 'ExpireAsk': {('ask', 'id')}, 'RejectAsk': {('ask', 'id')},
    'CreateBid': {('bid', 'id')}, 'CancelBid': {('bid', 'id')}, 'ExpireBid': {('bid', 'id')}, 'RejectBid': {('bid', 'id')},
    'ExecuteMatch': {('ask', 'ask_id'), ('bid', 'bid_id')},
    'ModifyContract': {('contract_info', None)},
}
ASK_MUTABLE = {(('f', 'size'),), (('f', 'class'),), CB_PATH + (('f', 'amount'),)}
BID_MUTABLE = {(('f', 'accumulated_base'),), (('f', 'accumulated_quote'),), (('f', 'accumulated_fee'),)}

def grows_from(new, old):
    """new == old + x1 + x2 ... syntactically (accumulate-only)"""
    t = new
    for _ in range(6):
        if t == old: return True
        if t[0] == 'add': t = t[1]
        else: return False
    return False

def run(eng, tier):
    nw = 0
    ns_consts = {}
    for name, v in (eng.s.get('consts') or {}).items():
        t = v
        if t[0] == 'named': t = t[2]
        if t[0] == 'call' and t[1].startswith('cw_storage_plus::') and t[3]:
            a = t[3][0]
            if a[0] == 'named': a = a[2]
            if a[0] == 'c': ns_consts[name] = (t[1].split('::')[1], a[1])
    by_ns = collections.defaultdict(set)
    for name, (kind, ns) in ns_consts.items(): by_ns[ns].add(kind)
    # handles constructed locally (`Item::new("version_info")` inside a function) bind a namespace as well: what is read or written under it
    unbound = [ns for ns in ('ask', 'bid', 'contract_info', 'version_info') if ns not in by_ns]
    if unbound:
        keyed = collections.defaultdict(set)
        for root in eng.s['roots']:
            for ex in eng.s['roots'][root]['exits']:
                for ef in ex.get('effects', ()):
                    if ef[0] in ('read', 'save', 'remove') and isinstance(ef[1], str) and ef[1] in unbound: keyed[ef[1]].add(ef[2] is not None)
        for ns, ks in keyed.items(): by_ns[ns].add('Map' if True in ks else 'Item')
    for ns in ('ask', 'bid', 'contract_info', 'version_info'):
        eng.ob(ns in by_ns, PROP, 'namespace', ns, 'storage namespace "%s" is not bound by any storage constant or used by any storage access (fail closed)' % ns)
    eng.ob(all(len(k) == 1 for k in by_ns.values()), PROP, 'namespace', 'kind', 'a namespace is used both as Map and as Item: %s' % dict(by_ns))
    eng.ob(by_ns.get('ask') == {'Map'} and by_ns.get('bid') == {'Map'}, PROP, 'namespace', 'maps', 'order books must be Maps on distinct namespaces "ask" / "bid"')
    for v, allowed in MAY_WRITE.items():
        for p in eng.paths('execute', 'ok', v):
            for w in p.writes:
                nw += 1
                keyf = None
                okk = False
                for ns, idf in allowed:
                    if w['ns'] != ns: continue
                    if idf is None: okk = w['key'] is None
                    else:
                        rec = stored(ns, M(v, idf))
                        okk = w['key'] in (M(v, idf), F(rec, 'id'))
                    if okk: break
                eng.ob(okk, PROP, 'write-key', '%s:%s' % (v, w['ns']), '%s writes %s[%s]; it may only write %s' % (v, w['ns'], K(w['key']) if w['key'] else '', sorted(allowed, key=str)), where=w['site'], detail=p.describe(10),
                       sample={'rule': 'write-key', 'request': v, 'ns': w['ns'], 'key': K(w['key']) if w['key'] else None})
            for ns, mutable in (('ask', ASK_MUTABLE), ('bid', BID_MUTABLE)):
                for op, key, val, w in written_record(p, ns):
                    if val is None:
                        eng.ob(op == 'remove' and v == 'CancelAsk', PROP, 'record-visible', v, '%s: cannot see the record written to %s' % (v, ns), where=w['site']); continue
                    base = record_base(val)
                    if base is None:
                        # creation from the request: id field == key (I8)
                        if op == 'save' and val[0] == 'adt':
                            eng.ob(dict(val[3]).get('id') == w['key'], PROP, 'I8-id', v, '%s: a new %s is saved under key %s but its id field is %s' % (v, ns, K(w['key']), K(dict(val[3]).get('id'))), where=w['site'])
                            eng.ob(v in ('CreateAsk', 'CreateBid'), PROP, 'record', v + ':fresh', '%s saves a %s that is not derived from the stored one' % (v, ns), where=w['site'])
                        continue
                    eng.ob(base[1] == ns and base[2] in [M(v, i) for (n_, i) in MAY_WRITE[v] if n_ == ns and i], PROP, 'record', v + ':same-order', '%s: the %s written derives from a different stored order %s' % (v, ns, K(base)), where=w['site'])
                    ups = upd_paths(val, base)
                    if ups is None:
                        eng.fail(PROP, 'record', v + ':derived', '%s: written %s is not the loaded one with fields updated' % (v, ns), where=w['site']); continue
                    for pth, newv in ups:
                        eng.ob(pth in mutable, PROP, 'immutable-field', '%s:%s:%s' % (v, ns, '.'.join(str(s[-1]) for s in pth)),
                               '%s rewrites the immutable %s field %s (id, owner, price, denominations, original size/quote/fee never change)' % (v, ns, '.'.join(str(s[-1]) for s in pth)), where=w['site'])
                        if ns == 'ask' and pth == (('f', 'class'),):
                            eng.ob(v == 'ApproveAsk', PROP, 'immutable-field', v + ':ask:class', '%s replaces the class of an ask' % v, where=w['site'])
                        if ns == 'ask' and pth == (('f', 'size'),):
                            old = F(base, 'size')
                            okm = newv == old or (newv[0] == 'sub' and newv[1] == old)
                            eng.ob(okm, PROP, 'monotone', v + ':ask:size', '%s: new ask size %s is not the old size minus an amount' % (v, K(newv)), where=w['site'])
                        if ns == 'bid':
                            old = F(base, pth[0][1])
                            eng.ob(grows_from(newv, old), PROP, 'monotone', '%s:bid:%s' % (v, pth[0][1]), '%s: new %s = %s is not the old value plus amounts (accumulate-only)' % (v, pth[0][1], K(newv)[:160]), where=w['site'])
                    if ns == 'bid' and v != 'CreateBid':
                        bs = BidSpec(base)
                        dom = Dom(p); dom.assume_bid(base, p.variant_of(bs.FEE) == 'Some')
                        nremq = SUB(bs.Q, nget(val, (('f', 'accumulated_quote'),))); nremb = SUB(bs.B, nget(val, (('f', 'accumulated_base'),)))
                        eng.ob(dom.eq(nremq, MUL(bs.P, nremb)), PROP, 'I4', v, '%s: after the operation unspent quote %s != price x unfilled size %s' % (v, dom.show(nremq), dom.show(MUL(bs.P, nremb))), where=w['site'], detail=p.describe(12),
                               sample={'rule': 'I4', 'writer': v, 'unspent_quote': dom.show(nremq)})
            remove_iff_zero(eng, PROP, p)
            if v in ('ExecuteMatch', 'CancelBid', 'ExpireBid', 'RejectBid', 'CreateBid'): check_exact_conversions(eng, PROP, p)
    # creation establishes I4 and zero accumulators (from the admission guard total == quote_size)
    for p in eng.paths('execute', 'ok', 'CreateBid'):
        v = 'CreateBid'
        eng.ob(p.holds(EQ(M(v, 'quote_size'), MUL(DEC(M(v, 'price')), M(v, 'size'))), True) is not None, PROP, 'I4', 'CreateBid', 'a bid is created without quote_size == price x size')
    # I6 at creation: plain exactly when the base is the contract's base denomination
    for p in eng.paths('execute', 'ok', 'CreateAsk'):
        v = 'CreateAsk'
        for w in p.writes:
            if w['op'] != 'save' or w['ns'] != 'ask' or w['val'][0] != 'adt': continue
            cls = dict(w['val'][3]).get('class')
            is_base = p.holds(EQ(F(CFG, 'base_denom'), M(v, 'base')), True) is not None
            not_base = p.holds(EQ(F(CFG, 'base_denom'), M(v, 'base')), False) is not None
            plain = cls is not None and cls[0] == 'adt' and cls[2] == 'Basic'
            eng.ob((plain and is_base) or ((not plain) and not_base), PROP, 'I6-class', 'CreateAsk',
                   'CreateAsk records class %s on a path where base == contract base is %s' % (K(cls)[:80] if cls else None, 'true' if is_base else ('false' if not_base else 'undecided')), where=w['site'], detail=p.describe(14))
    # no write outside `execute`'s classified kinds on the order maps from query; instantiate/migrate write sets
    for root in ('instantiate', 'query', 'migrate'):
        for p in eng.paths(root, ('ok', 'ret')):
            for w in p.writes:
                if root == 'query': eng.fail(PROP, 'write-key', 'query', 'query writes storage', where=w['site'])
                if root == 'instantiate': eng.ob(w['ns'] in ('contract_info', 'version_info'), PROP, 'write-key', 'instantiate:' + str(w['ns']), 'instantiate writes %s' % w['ns'], where=w['site'])
                if root == 'migrate': eng.ob(w['ns'] in ('contract_info', 'version_info', 'bid'), PROP, 'write-key', 'migrate:' + str(w['ns']), 'migrate writes %s' % w['ns'], where=w['site'])
    persistence_identity(eng, PROP)
    # no unanalysed call may mutate state: every opaque (external, unmodelled) callee receiving `&mut` / DepsMut is on a confirmed list
    # only callees that are handed mutable access to storage (`&mut dyn Storage`, `DepsMut`) matter: local collections are not state
    ALLOWED_OPAQUE_MUT = (lambda name, ty: name.endswith('DepsMut::<\'a, C>::branch'))
    seen_opaque = collections.Counter()
    for root in eng.s['roots']:
        for p in eng.paths(root, None, None, feasible_only=False):
            for e in p.effects:
                if e['op'] == 'opaque_mut_call':
                    seen_opaque[(e['ns'], e['val'])] += 1
    for (name, ty), n_ in seen_opaque.items():
        eng.ob(ALLOWED_OPAQUE_MUT(name, ty or ''), PROP, 'unanalysed-mutation', name, 'external function %s receives mutable storage access (%s) and is not modelled: it could write storage behind the analysis' % (name, ty))
    # version record: only instantiate / migrate
    for p in eng.paths('execute', 'ok'):
        for w in p.writes:
            eng.ob(w['ns'] != 'version_info', PROP, 'write-key', 'execute:version_info', 'execute writes the version record', where=w['site'])
    return {
        'explanation': 'R-write: per successful path the written (namespace, key) pairs are only the orders named by the request (key = request id or the stored id field, I8), the written value is the loaded record with only {ask: size, approver amount, class on approve | bid: the three accumulators} changed; '
                       'monotone: size\' = size - x, accumulators = old + x syntactically; I4 (unspent quote == price x unfilled size) re-established at every bid write in the linear domain; remove iff remainder zero (I1/I3); namespaces distinct; config/version never written by order requests.',
        'inventory': {'writes_checked': nw, 'namespaces': {k: sorted(v) for k, v in by_ns.items()}},
        'trusted_base': ['interpreter storage model', 'linear domain'], 'not_decided': [], 'assumptions': ['I4/I7 on loaded bids'],
    }

import probes as _pb
PROBES = [
    _pb.drop_facts('execute', 'RejectBid', '0 == (BID.base.amount'),
]
