"""C07 Admission: only fully funded, well-formed orders enter the book (R-guard at the save, R-table saved record == request, R-refusal)."""
from engine import *
from money import *
from refusal import *
from c03 import canonical_id_facts
from c10 import restricted_denoms, unrestricted_denoms
PROP = 'C07'

def price_guards(price_field, v):
    d = DEC(M(v, price_field))
    return [('price-parses', ('is', ('rcall', 'from_str', (M(v, price_field),)), 'Ok')),
            ('price-not-zero', ('val', EQ(d, I(0)), False)),
            ('price-not-negative', ('val', ('is_neg', d), False)),
            ('price-within-precision', ('val', EQ(('fract', MUL(d, POW10(F(CFG, 'price_precision')))), I(0)), True))]

def _is_member(ret, item):
    """ret (a closure result over the bound `item`) says: item is the name of one of the sender's attributes.
    Spellings: names.contains(item) with names = collect(map(iter(sender attributes), |a| a.name));
               iter(sender attributes).any(|a| a.name == item)"""
    src = F(V(('attr_query', SENDER), 'Ok'), 'attributes')
    if ret[0] == 'contains' and ret[2] == item:
        names = ret[1]
        if names[0] == 'collect' and names[1][0] == 'call' and names[1][1].endswith('::map') and names[1][2][0] == ('iter', src):
            l2 = names[1][2][1]
            return l2[0] == 'lambda' and len(l2[3]) == 1 and not l2[3][0][0] and l2[3][0][1][0] == 'f' and l2[3][0][1][2] == 'name' and l2[3][0][1][1][0] == 'bound'
        return False
    if ret[0] == 'call' and ret[1].endswith('::any') and len(ret[2]) == 2 and ret[2][0] == ('iter', src) and ret[2][1][0] == 'lambda':
        l2 = ret[2][1]
        if len(l2[3]) != 1 or l2[3][0][0]: return False
        r2 = l2[3][0][1]; b2 = ('bound', l2[1], 0)
        return r2[0] == 'eq' and set(r2[1:]) == {item, F(b2, 'name')}
    return False

def attrs_ok(p, listfield):
    """required attributes: list empty, or the attribute query of the sender succeeded and every required name is among the sender's
    attribute names -- as `any(required, |x| !member(x)) == false` or `all(required, |x| member(x)) == true`"""
    L = F(CFG, listfield)
    if p.holds(ISEMPTY(L), True) is not None: return True, 'empty'
    if p.pos(('is', ('attr_query', SENDER), 'Ok')) is None: return False, 'no successful attribute query of the sender'
    why = 'no any(required, ..) == false / all(required, ..) == true fact'
    for f, _, _ in p.facts:
        if not (f[0] == 'val' and isinstance(f[2], bool) and f[1][0] == 'call' and len(f[1][2]) == 2 and f[1][2][0] == ('iter', L)): continue
        kind = 'any' if f[1][1].endswith('::any') else ('all' if f[1][1].endswith('::all') else None)
        if kind is None or f[2] is not (kind == 'all'): continue
        lam = f[1][2][1]
        if lam[0] != 'lambda' or len(lam[3]) != 1 or lam[3][0][0]: why = 'the closure of %s() branches' % kind; continue
        ret = lam[3][0][1]; item = ('bound', lam[1], 0)
        if kind == 'any' and ret[0] == 'not' and _is_member(ret[1], item): return True, 'checked'
        if kind == 'all' and _is_member(ret, item): return True, 'checked'
        why = 'the closure of %s() does not test membership of the item among the names of the sender\'s attributes' % kind
    return False, why

def funds_rule(eng, p, v, denom, amount, dom, save_pos, PROP=PROP):
    """exact funds: unrestricted -> FUNDS == coins(amount, denom), no message; restricted -> FUNDS empty and one pull of amount"""
    before = [f for f, _, _ in p.facts]
    trs = transfers(p)
    restr = any(d == denom for d in restricted_denoms(before))
    unres = any(d == denom for d in unrestricted_denoms(before))
    eng.ob(restr != unres, PROP, 'funds-flag', v, '%s: the marker type of the escrowed denomination %s is not decided on this path' % (v, K(denom)), where=p, detail=p.describe(14))
    if unres:
        hit = None
        for f, _, _ in p.facts:
            if f[0] == 'val' and f[2] is True and f[1][0] == 'eq':
                a, b = f[1][1], f[1][2]
                other = b if a == FUNDS else (a if b == FUNDS else None)
                if other is not None and other[0] == 'coins' and other[2] == denom and dom.eq(other[1], amount): hit = f
        eng.ob(hit is not None, PROP, 'funds-exact', v + ':attached', '%s: order recorded on a path that does not establish attached funds == exactly one coin of %s %s' % (v, dom.show(amount), K(denom)), where=p, detail=p.describe(20),
               sample={'rule': 'funds-exact', 'request': v, 'amount': dom.show(amount), 'denom': K(denom)})
        eng.ob(not trs, PROP, 'funds-exact', v + ':no-message', '%s: a message is emitted although the denomination is not a restricted marker' % v)
    elif restr:
        eng.ob(p.holds(ISEMPTY(FUNDS), True) is not None, PROP, 'funds-exact', v + ':none-attached', '%s: restricted marker: order recorded without establishing that no funds are attached' % v, where=p, detail=p.describe(14))
        ok = len(trs) == 1 and not trs[0].get('bad') and trs[0]['mech'] == 'marker' and trs[0]['denom'] == denom and dom.eq(trs[0]['amount'], amount) \
            and trs[0]['from'] == SENDER and trs[0]['to'] == SELF
        eng.ob(ok, PROP, 'funds-exact', v + ':single-pull', '%s: restricted marker: expected exactly one pull of %s %s from the sender; got %s' % (
            v, dom.show(amount), K(denom), [(t.get('mech'), K(t.get('denom')) if t.get('denom') else None, dom.show(t['amount']) if t.get('amount') else None) for t in trs]), where=p, detail=p.describe(14))

def common_guards(eng, p, v, guards, save_pos):
    for name, f in guards:
        pos = p.pos(f)
        eng.ob(pos is not None and pos < save_pos, PROP, 'guard', '%s:%s' % (v, name), '%s: an order is recorded on a path that does not establish %s: %s' % (v, name, fact_key(f)), where=p, detail=p.describe(20),
               sample={'rule': 'guard', 'request': v, 'condition': name})

def run(eng, tier):
    refs = Refusals(eng, 'execute')
    inv = {}
    # ---------------- CreateAsk
    v = 'CreateAsk'
    oks = eng.paths('execute', 'ok', v)
    eng.ob(len(oks) > 0, PROP, 'floor-ok-path', v, 'no successful path for %s' % v)
    for p in oks:
        saves = [w for w in p.writes if w['op'] == 'save' and w['ns'] == 'ask']
        eng.ob(len(saves) == 1 and len(p.writes) == 1, PROP, 'one-write', v, 'CreateAsk must write exactly one ask; found %s' % [(w['op'], w['ns']) for w in p.writes])
        if len(saves) != 1: continue
        w = saves[0]; sp = w['fpos']; dom = Dom(p)
        base_is_contract = p.holds(EQ(F(CFG, 'base_denom'), M(v, 'base')), True) is not None
        base_conv = p.holds(CONTAINS(F(CFG, 'convertible_base_denoms'), M(v, 'base')), True) is not None
        eng.ob(base_is_contract or base_conv, PROP, 'guard', v + ':base-traded', 'CreateAsk: recorded without establishing the base is the contract base or a convertible base', where=p, detail=p.describe(20))
        g = [('quote-supported', ('val', CONTAINS(F(CFG, 'supported_quote_denoms'), M(v, 'quote')), True)),
             ('size-lot-multiple', ('val', EQ(I(0), REM(M(v, 'size'), F(CFG, 'size_increment'))), True)),
             ('size>=1', ('val', LT(M(v, 'size'), I(1)), False)),
             ('id-unused', ('is', ('mayload_opt', 'ask', M(v, 'id'), 0), 'None'))] + price_guards('price', v) + [('id-canonical', f) for f in canonical_id_facts(M(v, 'id'))]
        common_guards(eng, p, v, g, sp)
        ok, why = attrs_ok(p, 'ask_required_attributes')
        eng.ob(ok, PROP, 'guard', v + ':required-attributes', 'CreateAsk: recorded without the required-attribute test on the sender (%s)' % why, where=p, detail=p.describe(20))
        funds_rule(eng, p, v, M(v, 'base'), M(v, 'size'), dom, sp)
        cls = ('adt', 'ask_order::AskOrderClass', 'Basic', ()) if base_is_contract else ('adt', 'ask_order::AskOrderClass', 'Convertible', (('status', ('adt', 'ask_order::AskOrderStatus', 'PendingIssuerApproval', ())),))
        if not base_is_contract:
            eng.ob(p.holds(EQ(F(CFG, 'base_denom'), M(v, 'base')), False) is not None, PROP, 'record', v + ':class-decided', 'CreateAsk: class chosen without comparing the base with the contract base denomination')
        want = ('adt', 'ask_order::AskOrderV1', 'AskOrderV1', (('id', M(v, 'id')), ('owner', SENDER), ('class', cls), ('base', M(v, 'base')), ('quote', M(v, 'quote')), ('price', M(v, 'price')), ('size', M(v, 'size'))))
        got = w['val']
        okr = got[0] == 'adt' and canon(got) == canon(want)
        eng.ob(okr, PROP, 'record', v + ':equals-request', 'CreateAsk: the recorded ask differs from the request: %s' % K(got)[:300], where=w['site'],
               sample={'rule': 'record', 'request': v, 'saved': K(got)[:200]})
        eng.ob(w['key'] == M(v, 'id'), PROP, 'key', v, 'CreateAsk: saved under key %s, not the request id' % K(w['key']), where=w['site'])
    # ---------------- CreateBid
    v = 'CreateBid'
    oks = eng.paths('execute', 'ok', v)
    eng.ob(len(oks) > 0, PROP, 'floor-ok-path', v, 'no successful path for %s' % v)
    total = MUL(DEC(M(v, 'price')), M(v, 'size'))
    for p in oks:
        saves = [w for w in p.writes if w['op'] == 'save' and w['ns'] == 'bid']
        eng.ob(len(saves) == 1 and len(p.writes) == 1, PROP, 'one-write', v, 'CreateBid must write exactly one bid; found %s' % [(w['op'], w['ns']) for w in p.writes])
        if len(saves) != 1: continue
        w = saves[0]; sp = w['fpos']; dom = Dom(p)
        g = [('quote-supported', ('val', CONTAINS(F(CFG, 'supported_quote_denoms'), M(v, 'quote')), True)),
             ('base-is-contract-base', ('val', EQ(F(CFG, 'base_denom'), M(v, 'base')), True)),
             ('size-lot-multiple', ('val', EQ(I(0), REM(M(v, 'size'), F(CFG, 'size_increment'))), True)),
             ('size>=1', ('val', LT(M(v, 'size'), I(1)), False)), ('quote_size>=1', ('val', LT(M(v, 'quote_size'), I(1)), False)),
             ('total-whole', ('val', EQ(('fract', total), I(0)), True)),
             ('total==quote_size', ('val', EQ(M(v, 'quote_size'), total), True)),
             ('id-unused', ('is', ('mayload_opt', 'bid', M(v, 'id'), 0), 'None'))] + price_guards('price', v) + [('id-canonical', f) for f in canonical_id_facts(M(v, 'id'))]
        common_guards(eng, p, v, g, sp)
        ok, why = attrs_ok(p, 'bid_required_attributes')
        eng.ob(ok, PROP, 'guard', v + ':required-attributes', 'CreateBid: recorded without the required-attribute test on the sender (%s)' % why, where=p, detail=p.describe(20))
        # fee rule
        bfi = p.variant_of(F(CFG, 'bid_fee_info'))
        rate = DEC(F(SOMEV(F(CFG, 'bid_fee_info')), 'rate')) if bfi == 'Some' else I(0)
        eng.ob(bfi in ('Some', 'None'), PROP, 'guard', v + ':fee-rate-source', 'CreateBid: the fee rate is not taken from the configured bid fee (or 0 when none)', where=p, detail=p.describe(20))
        calc = ROUND0(MUL(rate, total))
        fee = M(v, 'fee'); fv = p.variant_of(fee)
        amount = total
        if fv == 'Some':
            okf = any(f[0] == 'val' and f[2] is True and f[1][0] == 'eq' and ((f[1][1] == F(SOMEV(fee), 'amount') and fee_eq(dom, f[1][2], calc)) or (f[1][2] == F(SOMEV(fee), 'amount') and fee_eq(dom, f[1][1], calc))) for f, _, _ in p.facts)
            eng.ob(okf, PROP, 'guard', v + ':fee-amount', 'CreateBid: a fee-carrying bid is recorded without establishing fee.amount == round-half-away(rate x price x size)', where=p, detail=p.describe(24),
                   sample={'rule': 'guard', 'condition': 'fee-amount', 'formula': K(calc)})
            eng.ob(p.holds(EQ(F(SOMEV(fee), 'denom'), M(v, 'quote')), True) is not None, PROP, 'guard', v + ':fee-denom', 'CreateBid: fee denomination not required to equal the quote denomination', where=p, detail=p.describe(20))
            amount = ADD(total, F(SOMEV(fee), 'amount'))
        elif fv == 'None':
            okf = any(f[0] == 'val' and f[2] is True and f[1][0] == 'eq' and ((f[1][1] == I(0) and fee_eq(dom, f[1][2], calc)) or (f[1][2] == I(0) and fee_eq(dom, f[1][1], calc))) for f, _, _ in p.facts)
            eng.ob(okf, PROP, 'guard', v + ':fee-absent-only-if-zero', 'CreateBid: a bid without a fee is recorded without establishing that the fee at the configured rate is 0', where=p, detail=p.describe(24))
        else:
            eng.fail(PROP, 'guard', v + ':fee-presence', 'CreateBid: fee presence not decided on the path')
        funds_rule(eng, p, v, M(v, 'quote'), amount, dom, sp)
        Z = I(0)
        want = {'base': ('adt', 'cosmwasm_std::Coin', 'Coin', (('amount', M(v, 'size')), ('denom', M(v, 'base')))), 'accumulated_base': Z, 'accumulated_quote': Z, 'accumulated_fee': Z,
                'fee': fee, 'id': M(v, 'id'), 'owner': SENDER, 'price': M(v, 'price'), 'quote': ('adt', 'cosmwasm_std::Coin', 'Coin', (('amount', M(v, 'quote_size')), ('denom', M(v, 'quote'))))}
        got = w['val']
        gd = {k: (('adt', x[1], x[2], tuple(sorted(x[3]))) if x[0] == 'adt' else x) for k, x in (dict(got[3]).items() if got[0] == 'adt' else [])}
        wd = {k: (('adt', x[1], x[2], tuple(sorted(x[3]))) if x[0] == 'adt' else x) for k, x in want.items()}
        eng.ob(got[0] == 'adt' and gd == wd, PROP, 'record', v + ':equals-request', 'CreateBid: the recorded bid differs from the request (owner = sender, nothing filled): %s' % K(got)[:400], where=w['site'],
               sample={'rule': 'record', 'request': v, 'saved': K(got)[:200]})
        eng.ob(w['key'] == M(v, 'id'), PROP, 'key', v, 'CreateBid: saved under key %s, not the request id' % K(w['key']), where=w['site'])
    # ---------------- R-refusal
    for v in ('CreateAsk', 'CreateBid'):
        T, TA = refusal_tables(v)
        m = check_table(eng, PROP, refs, v, T, TA, 'a create request')
        inv[v] = dict(m)
    return {
        'explanation': 'R-guard: every admission condition of the statement is a guard fact before the single save on every successful path of CreateAsk / CreateBid (traded denominations, lot multiple, price parse/positive/precision as fract(price*10^precision)==0, whole total equal to quote_size, fee == round-half-away(rate*total) with the rate from bid_fee_info, required attributes incl. the closure summaries, exact-funds rule per marker flag, unused canonical id); '
                       'R-table: the saved record equals the request with owner = sender, nothing filled, class Basic iff base == contract base; R-refusal: no refusal beyond the negated conditions, overflow and storage failure.',
        'inventory': {'matched_refusals': inv},
        'trusted_base': ['interpreter models incl. closure summaries', 'marker/attribute queries as oracles'],
        'not_decided': [], 'assumptions': [],
    }

def fee_eq(dom, a, b):
    try: return dom.eq(a, b)
    except Exception: return False

def zero_pull(f, v):
    """the escrow pull refuses amount == 0 (in any spelling): the amount is the validated size / quote_size (+ fee)"""
    sf = sign_of_fact(f) if f is not None else None
    if sf is None or sf[1] != 'zero': return False
    x = sf[0]
    if x in (M(v, 'size'), M(v, 'quote_size')): return True
    return x[0] == 'add' and (M(v, 'quote_size') in x[1:] or M(v, 'size') in x[1:])

def refusal_tables(v):
    side = 'ask' if v == 'CreateAsk' else 'bid'
    d = DEC(M(v, 'price'))
    def isf(e, f): return e['fact'] == f
    def or_id(e):
        f = e['fact']
        return f is not None and f[0] == 'or' and all(any((x[1] == ('uuid_parse', M(v, 'id'))) or (x[0] == 'val' and x[1][0] == 'eq' and M(v, 'id') in x[1]) for x in alt) for alt in f[1])
    def marker_or(e, denom):
        f = e['fact']
        if f is None: return False
        if f[0] == 'or': return all(any('marker_query' in repr(x) and repr(denom) in repr(x) for x in alt) for alt in f[1])
        return 'marker_query' in repr(f) and repr(denom) in repr(f)
    req = 'ask_required_attributes' if v == 'CreateAsk' else 'bid_required_attributes'
    T = [
        ('id-not-canonical', 'L', lambda e: id_not_canonical_fact(e['fact'], M(v, 'id'))),
        ('empty-field', 'L', lambda e: e['fact'] is not None and e['fact'][0] == 'val' and e['fact'][2] is True and e['fact'][1][0] == 'is_empty' and e['fact'][1][1][0] == 'msg'),
        ('size-below-1', 'L', lambda e: is_sign(e['fact'], M(v, 'size'), 'zero') or is_sign(e['fact'], M(v, 'quote_size'), 'zero')),
        ('config-load', 'I', lambda e: is_storage_load_err(e['fact'], 'contract_info')),
        ('quote-unsupported', 'L', lambda e: isf(e, ('val', CONTAINS(F(CFG, 'supported_quote_denoms'), M(v, 'quote')), False))),
        ('size-not-lot-multiple', 'L', lambda e: isf(e, ('val', EQ(I(0), REM(M(v, 'size'), F(CFG, 'size_increment'))), False))),
        ('price-unparsable', 'L', lambda e: isf(e, ('is', ('rcall', 'from_str', (M(v, 'price'),)), 'Err'))),
        ('price-zero', 'L', lambda e: isf(e, ('val', EQ(d, I(0)), True))),
        ('price-negative', 'L', lambda e: isf(e, ('val', ('is_neg', d), True))),
        ('price-too-precise', 'L', lambda e: isf(e, ('val', EQ(('fract', MUL(d, POW10(F(CFG, 'price_precision')))), I(0)), False))),
        ('attribute-query-fails', 'L', lambda e: isf(e, ('is', ('attr_query', SENDER), 'Err'))),
        ('attribute-missing', 'L', lambda e: e['fact'] is not None and e['fact'][0] == 'val' and e['fact'][1][0] == 'call' and len(e['fact'][1][2]) == 2 and e['fact'][1][2][0] == ('iter', F(CFG, req))
             and ((e['fact'][1][1].endswith('::any') and e['fact'][2] is True) or (e['fact'][1][1].endswith('::all') and e['fact'][2] is False))),
        ('id-already-on-book', 'L', lambda e: isf(e, ('is', ('mayload_opt', side, M(v, 'id'), 0), 'Some'))),
        ('storage', 'I', lambda e: is_save_err(e['fact']) or is_storage_load_err(e['fact'], side)),
        ('funds-attached-for-restricted', 'L', lambda e: isf(e, ('val', ISEMPTY(FUNDS), False))),
        ('funds-not-exact', 'L', lambda e: e['fact'] is not None and e['fact'][0] == 'val' and e['fact'][2] is False and e['fact'][1][0] == 'eq' and FUNDS in e['fact'][1][1:]),
        ('zero-amount-pull', 'D(validate: size, quote_size >= 1; unsigned sum)', lambda e: zero_pull(e['fact'], v)),
        ('class-serialisation', 'I', lambda e: e['fact'] is not None and e['fact'][0] == 'is' and e['fact'][2] == 'Err' and e['fact'][1][0] == 'call' and 'serde_json::to_string' in e['fact'][1][1]),
    ]
    if v == 'CreateAsk':
        T += [('base-not-traded', 'L', lambda e: isf(e, ('val', CONTAINS(F(CFG, 'convertible_base_denoms'), M(v, 'base')), False)))]
    else:
        total = MUL(d, M(v, 'size'))
        T += [('base-not-contract-base', 'L', lambda e: isf(e, ('val', EQ(F(CFG, 'base_denom'), M(v, 'base')), False))),
              ('total-overflow', 'I', lambda e: isf(e, ('is', ('rcall', 'checked_mul', (d, M(v, 'size'))), 'None'))),
              # Decimal::from(u128) panics above the 96-bit mantissa; the explicit from_u128(..).ok_or(..) spelling makes the same refusal visible
              ('amount-exceeds-decimal-range', 'I', lambda e: e['fact'] is not None and e['fact'][0] == 'is' and e['fact'][2] == 'None' and e['fact'][1][0] == 'rcall' and e['fact'][1][1] == 'from_u128'
                  and e['fact'][1][2] in ((M(v, 'size'),), (M(v, 'quote_size'),))),
              ('total-fractional', 'L', lambda e: isf(e, ('val', EQ(('fract', total), I(0)), False))),
              ('total-differs-from-quote_size', 'L', lambda e: isf(e, ('val', EQ(M(v, 'quote_size'), total), False))),
              ('fee-rate-unparsable', 'D(K)', lambda e: isf(e, ('is', ('rcall', 'from_str', (F(SOMEV(F(CFG, 'bid_fee_info')), 'rate'),)), 'Err'))),
              ('fee-product-overflow', 'I', lambda e: e['fact'] is not None and e['fact'][0] == 'is' and e['fact'][2] == 'None' and e['fact'][1][0] == 'rcall' and e['fact'][1][1] in ('checked_mul', 'to_u128') and 'round' in repr(e['fact']) or
                  (e['fact'] is not None and e['fact'][0] == 'is' and e['fact'][2] == 'None' and e['fact'][1][0] == 'rcall' and e['fact'][1][1] == 'checked_mul' and total in e['fact'][1][2])),
              ('fee-amount-wrong', 'L', lambda e: e['fact'] is not None and e['fact'][0] == 'val' and e['fact'][2] is False and e['fact'][1][0] == 'eq' and (F(SOMEV(M(v, 'fee')), 'amount') in e['fact'][1][1:]) and 'round' in repr(e['fact'])),
              # any spelling of "the computed fee is positive":  x != 0,  0 < x,  !(x < 1),  !is_zero(x)
              ('fee-missing-but-due', 'L', lambda e: e['fact'] is not None and (lambda sf: sf is not None and sf[1] == 'pos' and isinstance(sf[0], tuple) and sf[0][0] == 'round')(sign_of_fact(e['fact']))),
              ('fee-denom-wrong', 'L', lambda e: isf(e, ('val', EQ(F(SOMEV(M(v, 'fee')), 'denom'), M(v, 'quote')), False)))]
    def ab(e, kind): return e.get('abort') and e['abort'][0] == kind
    TA = [
        ('action-name-serialisation', 'D(unit enum serialises)', lambda e: is_unit_enum_serialisation(e)),
        ('zero-amount-pull', 'D(validate: size >= 1)', lambda e: is_generic_err_unwrap(e)),
        ('increment-zero', 'D(K)', lambda e: is_increment_zero(e)),
        ('precision-power', 'D(K: precision <= 18)', lambda e: (ab(e, 'unwrap') or ab(e, 'assert')) and ('pow' in e['key'] or '^' in e['key'] or 'checked_mul' in e['key'])),
        # unwrap of an explicit Err(..) built from the failed price x 10^precision product (whatever error value it carries)
        ('price-scale-overflow', 'I', lambda e: ab(e, 'unwrap') and isinstance(e['abort'][1], tuple) and e['abort'][1][0] == 'adt' and e['abort'][1][2] == 'Err'
             and any(f[0] == 'is' and f[2] == 'None' and f[1][0] == 'rcall' and f[1][1] == 'checked_mul' and 'pow' in repr(f[1]) for f in e.get('common', ()))),
        ('to_u128-of-whole-total', 'D(L-int)', lambda e: ab(e, 'unwrap') and 'to_u128' in e['key']),
        ('funds-sum-overflow', 'I', lambda e: ab(e, 'assert') and 'Add' in repr(e['abort'])) ,
        ('quote-plus-fee-overflow', 'I', lambda e: ab(e, 'uint_Add')),
    ]
    return T, TA

import probes as _pb
PROBES = [
    _pb.drop_facts('execute', 'CreateBid', 'FUNDS == coins'),
    _pb.drop_facts('execute', 'CreateAsk', 'contains(CFG.supported_quote_denoms'),
]
