"""C10 Transfer mechanism matches the denomination's marker type (R-write/messages, R-guard mechanism<->marker, R-origin parties)."""
from engine import *
PROP = 'C10'
THOROUGH_UNMERGED = True     # thorough tier re-runs the rules with every marker-query outcome as a separate path

ESCROW_IN = {'CreateAsk', 'CreateBid', 'ApproveAsk'}   # requests that pull funds in; all other messages are payouts

def marker_facts(d):
    mq = ('marker_query', d)
    resp = V(mq, 'Ok'); mk = F(resp, 'marker'); tf = ('call', 'provwasm_std::shim::<impl std::convert::TryFrom<provwasm_std::shim::Any> for provwasm_std::types::provenance::marker::v1::MarkerAccount>::try_from', (V(mk, 'Some'),))
    acct = V(tf, 'Ok')
    return mq, mk, tf, F(acct, 'marker_type')

def restricted_denoms(facts):
    """denominations D' for which the path holds: marker(D') ok, a marker is present, it decodes, marker_type == 2"""
    fs = set(facts)
    out = []
    for f in facts:
        if f[0] == 'is' and f[1][0] == 'marker_query' and f[2] == 'Ok':
            d = f[1][1]; mq, mk, tf, mt = marker_facts(d)
            if ('is', mk, 'Some') in fs and ('is', tf, 'Ok') in fs and (('val', mt, 2) in fs or ('val', EQ(mt, I(2)), True) in fs): out.append(d)
    return out

def contradicts_restricted(f):
    """if fact f contradicts restricted(D) for some D, return D"""
    if f[0] == 'is' and f[1][0] == 'marker_query' and f[2] == 'Err': return f[1][1]
    if f[0] in ('is', 'isnot') and f[1][0] == 'f' and f[1][2] == 'marker' and f[1][1][0] == 'v' and f[1][1][1][0] == 'marker_query':
        if (f[0] == 'is' and f[2] == 'None') or (f[0] == 'isnot' and 'Some' in f[2]): return f[1][1][1][1]
    if f[0] == 'is' and f[2] == 'Err' and f[1][0] == 'call' and 'TryFrom' in f[1][1] and 'MarkerAccount' in f[1][1]:
        t = f[1][2][0]
        while t[0] in ('v', 'f'):
            t = t[1]
            if t[0] == 'marker_query': return t[1]
    if f[0] == 'nval' and 2 in f[2] and f[1][0] == 'f' and f[1][2] == 'marker_type':
        t = f[1]
        while t[0] in ('v', 'f', 'call'):
            t = t[1] if t[0] != 'call' else (t[2][0] if t[2] else ('x',))
            if t[0] == 'marker_query': return t[1]
    if f[0] == 'val' and f[2] is False and f[1][0] == 'eq' and I(2) in f[1][1:]:
        t = f[1][2] if f[1][1] == I(2) else f[1][1]
        if t[0] == 'f' and t[2] == 'marker_type':
            while t[0] in ('v', 'f', 'call'):
                t = t[1] if t[0] != 'call' else (t[2][0] if t[2] else ('x',))
                if t[0] == 'marker_query': return t[1]
    if f[0] == 'val' and f[1][0] == 'f' and f[1][2] == 'marker_type' and f[2] != 2:
        t = f[1]
        while t[0] in ('v', 'f', 'call'):
            t = t[1] if t[0] != 'call' else (t[2][0] if t[2] else ('x',))
            if t[0] == 'marker_query': return t[1]
    return None

def unrestricted_denoms(facts):
    out = []
    for f in facts:
        if f[0] == 'or':
            ds = None
            for alt in f[1]:
                here = set(d for d in (contradicts_restricted(x) for x in alt) if d is not None)
                ds = here if ds is None else (ds & here)
            for d in (ds or ()): out.append(d)
        else:
            d = contradicts_restricted(f)
            if d is not None: out.append(d)
    return out

def invariant_equivs(p):
    """I5: a stored bid's fee denomination equals its quote denomination (guard of create_bid; conversion copies both)"""
    ex = []
    for f, _, _ in p.facts:
        t = f[1] if len(f) > 1 and isinstance(f[1], tuple) else None
        if f[0] == 'is' and f[2] == 'Some' and t and t[0] == 'f' and t[2] == 'fee' and t[1][0] == 'stored' and t[1][1] == 'bid':
            ex.append((F(SOMEV(t), 'denom'), F(t[1], 'quote', 'denom')))
    return ex

def positive_evidence(p, a):
    """why amount term a is > 0 on path p: a guard fact, a validated request size, or a named invariant; None if nothing"""
    from money import Dom
    dom = Dom(p, use=('path',))
    from money import numericish
    for y, sg in p.signs():
        if sg == 'pos' and isinstance(y, tuple) and numericish(y) and dom.eq(y, a): return 'guard: amount > 0'
    pa = dom.poly(a)
    def stored_field(t, ns, path):
        x = t
        for name in reversed(path):
            if x[0] != 'f' or x[2] != name: return False
            x = x[1]
        return x[0] == 'stored' and x[1] == ns
    if stored_field(a, 'ask', ['size']): return 'I1: an ask on the book has size > 0'
    if a[0] == 'f' and a[2] == 'amount' and a[1][0] == 'v' and a[1][3] == 'converted_base': return 'I2 + I1: approver amount == size > 0'
    # price x positive size
    def is_size(t):
        if t[0] == 'msg' and t[2] in ('size',): return p.pos(('pos', t)) is not None
        if t[0] == 'v' and t[2] == 'Some' and t[1][0] == 'msg': return p.pos(('pos', t)) is not None
        if t[0] == 'sub' and stored_field(t[1], 'bid', ['base', 'amount']) and stored_field(t[2], 'bid', ['accumulated_base']): return True   # I3
        return False
    if a[0] == 'mul' and a[1][0] == 'dec' and is_size(a[2]): return 'I6/L-pos: positive price x positive size, whole by the path guard'
    if is_size(a): return 'I3 / validated size'
    if a[0] == 'sub' and a[1][0] == 'mul' and a[2][0] == 'round': return 'undecided:net-proceeds'
    if a[0] == 'add' and any(positive_evidence(p, x) for x in a[1:]): return 'sum with a positive part'
    return None

undecided = collections.Counter()

def check_I5_established(eng, prop):
    """I5 at its only source: CreateBid admits a fee only in the bid's own quote denomination (the conversion of old-format bids copies both)"""
    for p in eng.paths('execute', 'ok', 'CreateBid'):
        fee = M('CreateBid', 'fee')
        if p.variant_of(fee) == 'Some':
            eng.ob(p.holds(EQ(F(SOMEV(fee), 'denom'), M('CreateBid', 'quote')), True) is not None, prop, 'I5-established', 'CreateBid',
                   'a bid is admitted without requiring fee.denom == quote denom; the fee is escrowed with the quote, later fee transfers name fee.denom and choose the mechanism from the quote denomination\'s marker type', where=p, detail=p.describe(12))

def run(eng, tier):
    undecided.clear()
    contexts = set(); nmsg = 0; kinds = collections.Counter()
    variants_with_msgs = set()
    for root in eng.s['roots']:
        for p in eng.paths(root, ('ok', 'ret')):
            r = p.response
            if root != 'execute':
                eng.ob(not p.messages, PROP, 'no-message-outside-execute', root, '%s emits a message' % root)
                continue
            msgs = p.messages
            if not msgs: continue
            facts_all = [f for f, _, _ in p.facts]
            eqv = None
            for m in msgs:
                nmsg += 1
                tr = transfer_of(m) if m['kind'] == 'msg' else None
                site = m['site']
                call_site = m['stack'][-1][1] if m['stack'] else site
                hsite = [s for d, s in m['stack'] if 'contract.rs' in (s or '')]
                ok = tr is not None and 'bad' not in tr
                eng.ob(ok, PROP, 'message-kind', '%s:%s' % (p.variant, K(m['term'])[:80] if not ok else 'ok'),
                       '%s: emits a message that is not a one-coin BankMsg::Send or a MsgTransferRequest: %s' % (p.variant, K(m['term'])[:200] if m['term'] else m['kind']), where=site)
                if not ok: continue
                variants_with_msgs.add(p.variant)
                kinds[tr['mech']] += 1
                D = tr['denom']; a = tr['amount']
                before = facts_all[:m['fpos']] if m['fpos'] is not None else facts_all
                if eqv is None: eqv = Equiv(p, invariant_equivs(p))
                if tr['mech'] == 'marker':
                    cands = restricted_denoms(before)
                    ok = any(eqv.same(D, d) for d in cands)
                    eng.ob(ok, PROP, 'mechanism', '%s:marker:%s' % (p.variant, K(D)),
                           '%s: marker transfer of denomination %s emitted on a path that does not establish that *this* denomination is a restricted marker (restricted on this path: %s)' % (
                               p.variant, K(D), [K(d) for d in cands]), where=call_site, detail=p.describe(),
                           sample={'rule': 'mechanism', 'request': p.variant, 'mech': 'marker', 'denom': K(D), 'marker_fact_for': [K(d) for d in cands if eqv.same(D, d)][:1]})
                    # zero amount refused before the message is built
                    z = p.pos(('pos', a))
                    eng.ob(z is not None and (m['fpos'] is None or z < m['fpos']), PROP, 'marker-amount-nonzero', '%s:%s' % (p.variant, K(a)),
                           '%s: marker transfer of %s built without the amount == 0 refusal' % (p.variant, K(a)), where=call_site)
                else:
                    cands = unrestricted_denoms(before)
                    ok = any(eqv.same(D, d) for d in cands)
                    eng.ob(ok, PROP, 'mechanism', '%s:bank:%s' % (p.variant, K(D)),
                           '%s: bank send of denomination %s emitted on a path that does not establish that *this* denomination is not a restricted marker (known unrestricted on this path: %s)' % (
                               p.variant, K(D), [K(d) for d in cands]), where=call_site, detail=p.describe(),
                           sample={'rule': 'mechanism', 'request': p.variant, 'mech': 'bank', 'denom': K(D)})
                # strict positivity of the amount moved
                why = positive_evidence(p, a)
                if why == 'undecided:net-proceeds': undecided[(p.variant, 'net proceeds = gross - ask fee (zero only when the ask fee equals the gross)')] += 1
                else:
                    eng.ob(why is not None, PROP, 'amount-positive', '%s:%s' % (p.variant, K(a)[:160]),
                           '%s: %s of %s %s: nothing on the path establishes the amount is > 0 (a zero-coin message would be requested)' % (p.variant, 'bank send' if tr['mech'] == 'bank' else 'marker transfer', K(a)[:200], K(D)),
                           where=call_site, detail=p.describe(16), sample={'rule': 'amount-positive', 'request': p.variant, 'amount': K(a)[:100], 'evidence': why})
                # parties
                if p.variant in ESCROW_IN:
                    ok = tr['mech'] == 'marker' and tr['to'] == SELF and tr['admin'] == SELF and tr['from'] == SENDER
                    eng.ob(ok, PROP, 'parties-pull-in', '%s:%s' % (p.variant, K(D)),
                           '%s: escrow pull-in must be a marker transfer from the sender to the contract with the contract as administrator; got mech=%s from=%s to=%s admin=%s' % (
                               p.variant, tr['mech'], K(tr['from']), K(tr['to']), K(tr['admin']) if tr['admin'] else None), where=call_site)
                else:
                    if tr['mech'] == 'marker':
                        ok = tr['from'] == SELF and tr['admin'] == SELF
                        eng.ob(ok, PROP, 'parties-payout', '%s:%s:%s' % (p.variant, K(D), K(tr['to'])),
                               '%s: payout by marker transfer must be drawn from the contract with the contract as administrator; got from=%s admin=%s' % (
                                   p.variant, K(tr['from']), K(tr['admin'])), where=call_site)
                contexts.add((tuple(hsite), tr['mech']))
    # premise of I5 (used above to relate a bid's fee denomination to its quote denomination): admission enforces it
    check_I5_established(eng, PROP)
    # spec floor: every fund-moving request kind has at least one message on some successful path
    movers = ['CreateAsk', 'CreateBid', 'ApproveAsk', 'CancelAsk', 'CancelBid', 'ExpireAsk', 'ExpireBid', 'RejectAsk', 'RejectBid', 'ExecuteMatch']
    for v in movers:
        eng.ob(v in variants_with_msgs, PROP, 'floor-mover', v, 'no fund-moving message found on any successful path of %s (fail closed)' % v)
    # add_message call sites and their message types
    return {
        'explanation': 'Per successful abstract path and per emitted message (helpers inlined): the message is a one-coin BankMsg::Send or a MsgTransferRequest; a marker transfer of denomination D is emitted only where the path facts before the emission hold '
                       'IsOk(marker(D\')) & marker present & decodes & marker_type == 2 with D\' == D modulo the path equalities and I5; a bank send only where a fact contradicting that for D\' == D holds; parties: payouts from/administrator = contract, pull-ins to/administrator = contract and from = sender; '
                       'a marker transfer of amount 0 is refused before the message is built. Decided per path for every marker assignment (marker query outcomes are opaque symbols).',
        'inventory': {'messages_checked': nmsg, 'emission_contexts': len(contexts), 'by_mechanism': dict(kinds), 'positivity_undecided': {'%s: %s' % k: v for k, v in undecided.items()}},
        'trusted_base': ['MarkerQuerier / bank / marker module semantics', 'interpreter models (DESIGN §3)'],
        'not_decided': ['strict positivity of the net proceeds gross - ask fee when an ask fee is charged (zero exactly when the fee equals the gross, e.g. rate 1): value-dependent, listed in inventory.positivity_undecided; every other amount is shown positive by a guard fact, a validated size or a named invariant'],
        'assumptions': ['I5 (fee denom == quote denom of a stored bid) is established by C07/C15 obligations'],
    }

import probes as _pb
PROBES = [
    _pb.drop_facts('execute', 'CancelAsk', 'marker_type'),
    _pb.drop_facts('execute', 'ExecuteMatch', 'marker_query(BID.quote.denom) is Ok'),
]
