"""Fact-level sensitivity probes (thorough tier, DESIGN §9): each probe perturbs the extracted summary the way a source
change would (drops a guard fact, removes a message, removes a write, swaps a recipient) and requires the property's rules to
report a violation. A rule that survives its probe is vacuous and the check fails."""
import copy
from norm import Norm, PF
from engine import abbreviate

def _variant(e):
    for f, _, _ in e['facts']:
        if f[0] == 'is' and f[1] == ('sym', 'msg'): return f[2]
    return None

def drop_facts(root, variant, substr):
    def m(summ):
        N = Norm(root); n = 0
        for e in summ['roots'][root]['exits']:
            if variant is not None and _variant(e) != variant: continue
            keep = []
            for fc in e['facts']:
                key = abbreviate(PF(N.fact(fc[0])))
                if substr in key and not (fc[0][0] == 'is' and fc[0][1] == ('sym', 'msg')): n += 1; continue
                keep.append(fc)
            # effect / message positions refer to fact indexes; after deletion they only shift down, which keeps "before" relations
            e['facts'] = keep
        return n
    m.__name__ = 'drop_facts(%s,%s,%r)' % (root, variant, substr)
    return m

def drop_message(root, variant, index=-1):
    def m(summ):
        n = 0
        for e in summ['roots'][root]['exits']:
            if e['kind'] != 'ok' or _variant(e) != variant: continue
            rv = e['ret']
            resp = rv[3][0][1]
            if resp[0] == 'resp' and resp[1]:
                msgs = list(resp[1]); msgs.pop(index)
                e['ret'] = ('adt', rv[1], rv[2], (('0', ('resp', tuple(msgs), resp[2])),)); n += 1
        return n
    m.__name__ = 'drop_message(%s,%s,%d)' % (root, variant, index)
    return m

def drop_write(root, variant, ns):
    def m(summ):
        n = 0
        for e in summ['roots'][root]['exits']:
            if e['kind'] != 'ok' or (variant is not None and _variant(e) != variant): continue
            before = len(e['effects'])
            e['effects'] = [x for x in e['effects'] if not (x[0] in ('save', 'remove') and x[1] == ns)]
            n += before - len(e['effects'])
        return n
    m.__name__ = 'drop_write(%s,%s,%s)' % (root, variant, ns)
    return m

def drop_attr(root, variant, key):
    def m(summ):
        n = 0
        for e in summ['roots'][root]['exits']:
            if e['kind'] != 'ok' or _variant(e) != variant: continue
            rv = e['ret']; resp = rv[3][0][1]
            if resp[0] == 'resp':
                attrs = tuple(a for a in resp[2] if not (a[0] == 'attr' and a[1] == ('c', key)))
                if len(attrs) != len(resp[2]): n += 1
                e['ret'] = ('adt', rv[1], rv[2], (('0', ('resp', resp[1], attrs)),))
        return n
    m.__name__ = 'drop_attr(%s,%s,%s)' % (root, variant, key)
    return m

def run_probes(mod, summ_loader, engine_mod, tier):
    """returns list of {probe, mutated, violations}; a probe with mutated > 0 and violations == 0 is a vacuity failure"""
    out = []
    for pr in getattr(mod, 'PROBES', []):
        summ = summ_loader()
        n = pr(summ)
        eng = engine_mod.Engine(summ)
        try:
            mod.run(eng, tier)
            nv = len(eng.violations)
        except Exception as ex:     # a rule crashing on a perturbed summary also counts as noticing it
            nv = -1
        out.append({'probe': pr.__name__, 'mutated_sites': n, 'violations': nv})
    return out
