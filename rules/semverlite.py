"""L-sem: constant folding of semver requirement matching on literal versions (plain x.y.z versions; comparators >=, >, <, <=, =)."""
import re
def parse_version(s):
    m = re.match(r'^(\d+)\.(\d+)\.(\d+)$', s.strip())
    if not m: return None
    return tuple(int(x) for x in m.groups())
def parse_req(s):
    out = []
    for part in s.split(','):
        m = re.match(r'^\s*(>=|<=|>|<|=)\s*(\d+)\.(\d+)\.(\d+)\s*$', part)
        if not m: return None
        out.append((m.group(1), (int(m.group(2)), int(m.group(3)), int(m.group(4)))))
    return out
def matches(req, ver):
    r = parse_req(req); v = parse_version(ver)
    if r is None or v is None: return None
    for op, x in r:
        if op == '>=' and not v >= x: return False
        if op == '>' and not v > x: return False
        if op == '<' and not v < x: return False
        if op == '<=' and not v <= x: return False
        if op == '=' and not v == x: return False
    return True
def lower_bound(req):
    r = parse_req(req)
    if r is None: return None
    lbs = [x for op, x in r if op in ('>=',)]
    return max(lbs) if lbs else None
