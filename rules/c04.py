"""C04 Cancel / expire / reject return exactly the cancelled escrow to its depositor (R-table per Ok path, R-guard partial size)."""
from engine import *
from money import *
PROP = 'C04'

CB_PATH = (('f', 'class'), ('v', 'Convertible', 'status'), ('v', 'Ready', 'converted_base'))

def ask_side(eng, v):
    ASK = stored('ask', M(v, 'id'))
    CLASS = F(ASK, 'class'); STATUS = V(CLASS, 'Convertible', 'status'); CB = V(STATUS, 'Ready', 'converted_base'); APPR = V(STATUS, 'Ready', 'approver')
    n = 0
    for p in eng.paths('execute', 'ok', v):
        n += 1
        dom = Dom(p); eqv = Equiv(p)
        ready = ask_class_presence(eng, PROP, p, ASK, 'the ask is paid out') == 'Ready'
        if ready: dom.assume_ready_ask(ASK)
        if v == 'RejectAsk':
            eng.ob(p.variant_of(M(v, 'size')) in ('Some', 'None'), PROP, 'size-presence', v, '%s: the ask is paid out on a path that never looks at whether a size was supplied (a supplied size must be honoured)' % v, where=p, detail=p.describe(14))
        supplied = v == 'RejectAsk' and p.variant_of(M(v, 'size')) == 'Some'
        if v == 'CancelAsk': c = F(ASK, 'size')
        else: c = SOMEV(M(v, 'size')) if supplied else F(ASK, 'size')
        exp = [(F(ASK, 'base'), c, F(ASK, 'owner'))]
        if ready: exp.append((F(CB, 'denom'), c, APPR))
        trs = transfers(p)
        act = [(t['denom'], t['amount'], t['to']) for t in trs if not t.get('bad')]
        ua, ue = match_multiset(dom, eqv, act, exp)
        eng.ob(not ua and not ue and not any(t.get('bad') for t in trs), PROP, 'transfers', '%s:%s' % (v, 'ready' if ready else 'plain/pending'),
               '%s (%s ask, size %s): transfers differ from the spec; unexpected: %s; missing: %s' % (
                   v, 'approved convertible' if ready else 'plain or pending', 'supplied' if supplied else 'whole remainder',
                   [(K(d), dom.show(a), K(t)) for d, a, t in ua], [(K(d), dom.show(a), K(t)) for d, a, t in ue]),
               where=(trs[0].get('call_site') if trs else None), detail=p.describe(),
               sample={'rule': 'transfers', 'request': v, 'expected': [(K(d), K(a), K(t)) for d, a, t in exp]})
        # bookkeeping
        recs = written_record(p, 'ask')
        eng.ob(len(recs) == 1 and len(p.writes) == 1, PROP, 'one-write', v, '%s: expected exactly one write (the named ask), found %s' % (v, [(w['op'], w['ns']) for w in p.writes]), where=p, detail=p.describe())
        if len(recs) != 1: continue
        op, key, val, w = recs[0]
        eng.ob(key == M(v, 'id') or key == F(ASK, 'id'), PROP, 'key', v, '%s: writes ask key %s, not the request id' % (v, K(key)), where=w['site'])
        newsize = SUB(F(ASK, 'size'), c)
        zero = p.holds(EQ(I(0), newsize), True); nonzero = p.holds(EQ(I(0), newsize), False)
        if v == 'CancelAsk':
            eng.ob(op == 'remove', PROP, 'remove-iff-zero', v, 'CancelAsk must remove the ask', where=w['site'])
        else:
            if op == 'remove':
                eng.ob(zero is not None or dom.is_zero(newsize), PROP, 'remove-iff-zero', v + ':remove', '%s: ask removed on a path that does not establish the new size is zero' % v, where=w['site'], detail=p.describe())
            else:
                eng.ob(nonzero is not None, PROP, 'remove-iff-zero', v + ':save', '%s: ask saved on a path that does not establish the new size is non-zero' % v, where=w['site'], detail=p.describe())
            if val is not None and op == 'save':
                ups = upd_paths(val, ASK)
                ok = ups is not None
                eng.ob(ok, PROP, 'record', v + ':derived', '%s: saved ask is not the loaded ask with fields updated' % v, where=w['site'])
                if ok:
                    d = {pth: x for pth, x in ups}
                    allowed = {(('f', 'size'),), CB_PATH + (('f', 'amount'),)}
                    extra = [pth for pth in d if pth not in allowed]
                    eng.ob(not extra, PROP, 'record', v + ':only-size', '%s: saved ask changes fields other than the remaining size / approver amount: %s' % (v, extra), where=w['site'])
                    sz = d.get((('f', 'size'),))
                    eng.ob(sz is not None and dom.eq(sz, newsize), PROP, 'record', v + ':size', '%s: saved size is %s, expected size - cancelled' % (v, K(sz) if sz else None), where=w['site'], detail=p.describe())
                    if ready:
                        cb_amt = nget(val, CB_PATH + (('f', 'amount'),))
                        eng.ob(Dom(p, use=('path',)).eq(cb_amt, newsize), PROP, 'record', v + ':approver-amount',
                               '%s: after the operation the recorded approver amount is %s but the remaining size is %s (they must stay equal)' % (v, K(cb_amt), K(newsize)), where=w['site'], detail=p.describe())
        if supplied:
            g1 = p.holds(EQ(I(0), REM(c, F(CFG, 'size_increment'))), True)
            eng.ob(g1 is not None and g1 < w['fpos'], PROP, 'guard', v + ':lot-multiple', '%s: a supplied size is accepted without the lot-multiple test' % v, where=p, detail=p.describe())
            g2 = p.pos(('is', ('rcall', 'checked_sub', (F(ASK, 'size'), c)), 'Ok'))
            if g2 is None: g2 = p.holds(LT(F(ASK, 'size'), c), False)
            eng.ob(g2 is not None, PROP, 'guard', v + ':not-above-remaining', '%s: a supplied size is accepted without the bound by the remaining size' % v, where=p, detail=p.describe())
            g3 = p.holds(LT(c, I(1)), False)
            eng.ob(g3 is not None, PROP, 'guard', v + ':size>=1', '%s: a supplied size below 1 is not refused' % v, where=p, detail=p.describe())
    return n

def bid_side(eng, v):
    BID = stored('bid', M(v, 'id')); bs = BidSpec(BID)
    n = 0
    for p in eng.paths('execute', 'ok', v):
        n += 1
        has_fee = fee_presence(eng, PROP, p, bs.FEE, 'the bid is paid out') == 'Some'
        dom = Dom(p); dom.assume_bid(BID, has_fee); eqv = Equiv(p)
        if v == 'RejectBid':
            eng.ob(p.variant_of(M(v, 'size')) in ('Some', 'None'), PROP, 'size-presence', v, '%s: the bid is paid out on a path that never looks at whether a size was supplied (a supplied size must be honoured)' % v, where=p, detail=p.describe(14))
        supplied = v == 'RejectBid' and p.variant_of(M(v, 'size')) == 'Some'
        c = SOMEV(M(v, 'size')) if supplied else bs.remB
        q = MUL(bs.P, c)
        f = bs.bidfee(q)
        exp = [(bs.qdenom, q, bs.owner)]
        fee_paid = has_fee and any(sg == 'pos' and isinstance(y, tuple) and numericish(y) and dom.eq(y, f) for y, sg in p.signs())
        fee_zero = has_fee and any(sg == 'zero' and isinstance(y, tuple) and numericish(y) and dom.eq(y, f) for y, sg in p.signs())
        if has_fee:
            eng.ob(fee_paid or fee_zero, PROP, 'fee-branch', v, '%s: fee-bearing bid: no branch on "returned fee > 0" found for the pro-rata fee' % v, where=p, detail=p.describe())
        if fee_paid: exp.append((bs.qdenom, f, bs.owner))
        trs = transfers(p)
        act = [(t['denom'], t['amount'], t['to']) for t in trs if not t.get('bad')]
        eqv2 = Equiv(p, [(bs.fdenom, bs.qdenom)] if has_fee else [])
        ua, ue = match_multiset(dom, eqv2, act, exp)
        eng.ob(not ua and not ue, PROP, 'transfers', '%s:%s' % (v, 'fee' if has_fee else 'nofee'),
               '%s (size %s, %s): transfers differ from the spec; unexpected: %s; missing: %s' % (
                   v, 'supplied' if supplied else 'whole remainder', 'fee-bearing' if has_fee else 'no fee',
                   [(K(d), dom.show(a), K(t)) for d, a, t in ua], [(K(d), dom.show(a), K(t)) for d, a, t in ue]),
               where=(trs[0].get('call_site') if trs else None), detail=p.describe(),
               sample={'rule': 'transfers', 'request': v, 'expected': [(K(d), K(a), K(t)) for d, a, t in exp]})
        recs = written_record(p, 'bid')
        eng.ob(len(recs) == 1 and len(p.writes) == 1, PROP, 'one-write', v, '%s: expected exactly one write (the named bid), found %s' % (v, [(w['op'], w['ns']) for w in p.writes]), where=p, detail=p.describe())
        if len(recs) != 1: continue
        op, key, val, w = recs[0]
        eng.ob(key == M(v, 'id') or key == F(BID, 'id'), PROP, 'key', v, '%s: writes bid key %s, not the request id' % (v, K(key)), where=w['site'])
        new_remB = SUB(bs.remB, c)
        if op == 'remove':
            ok = dom.is_zero(new_remB) or p.holds(EQ(I(0), SUB(bs.B, ADD(bs.aB, c))), True) is not None
            eng.ob(ok, PROP, 'remove-iff-zero', v + ':remove', '%s: bid removed on a path that does not establish the remaining size is zero' % v, where=w['site'], detail=p.describe())
        else:
            ok = any(sg == 'pos' and isinstance(y, tuple) and numericish(y) and dom.eq(y, new_remB) for y, sg in p.signs())
            eng.ob(ok, PROP, 'remove-iff-zero', v + ':save', '%s: bid saved on a path that does not establish the remaining size is non-zero' % v, where=w['site'], detail=p.describe())
        eng.ob(val is not None, PROP, 'record', v + ':visible', '%s: cannot see the updated bid record at the write' % v, where=w['site'])
        if val is None: continue
        ups = upd_paths(val, BID)
        eng.ob(ups is not None, PROP, 'record', v + ':derived', '%s: written bid is not the loaded bid with fields updated' % v, where=w['site'])
        if ups is None: continue
        d = {pth: x for pth, x in ups}
        allowed = {(('f', 'accumulated_base'),), (('f', 'accumulated_quote'),), (('f', 'accumulated_fee'),)}
        extra = [pth for pth in d if pth not in allowed]
        eng.ob(not extra, PROP, 'record', v + ':only-accumulators', '%s: bid fields other than the accumulators change: %s' % (v, extra), where=w['site'])
        dnp = Dom(p, use=('path',))     # bookkeeping deltas are compared without assuming invariants
        for fld, delta, present in ((('f', 'accumulated_base'),), c, True), ((('f', 'accumulated_quote'),), q, True), ((('f', 'accumulated_fee'),), f, has_fee):
            old = F(BID, fld[0][1]); new = d.get(fld, old)
            want = ADD(old, delta) if present else old
            okb = dom.eq(new, want)
            if fld[0][1] == 'accumulated_fee' and has_fee and not fee_paid:
                okb = okb or dom.eq(new, old)      # returned fee is zero: adding it or not is the same (L-uns)
            eng.ob(okb, PROP, 'bookkeeping', '%s:%s' % (v, fld[0][1]), '%s: %s becomes %s, expected %s' % (v, fld[0][1], dom.show(new), dom.show(want)), where=w['site'], detail=p.describe())
        if supplied:
            g1 = p.holds(EQ(I(0), REM(c, F(CFG, 'size_increment'))), True)
            eng.ob(g1 is not None and g1 < w['fpos'], PROP, 'guard', v + ':lot-multiple', '%s: a supplied size is accepted without the lot-multiple test' % v, detail=p.describe())
            g3 = p.holds(LT(c, I(1)), False)
            eng.ob(g3 is not None, PROP, 'guard', v + ':size>=1', '%s: a supplied size below 1 is not refused' % v, where=p, detail=p.describe())
        g2 = p.holds(LT(bs.remB, c), False)
        eng.ob(g2 is not None or not supplied, PROP, 'guard', v + ':not-above-remaining', '%s: a supplied size is accepted without the bound by the remaining size' % v, where=p, detail=p.describe())
        gi = p.holds(EQ(('fract', q), I(0)), True)
        eng.ob(gi is not None, PROP, 'guard', v + ':returned-quote-integral', '%s: the returned quote price*size is used as an integer without the whole-number test' % v, where=p, detail=p.describe())
    return n

def run(eng, tier):
    counts = {}
    for v in ('CancelAsk', 'ExpireAsk', 'RejectAsk'):
        counts[v] = ask_side(eng, v)
    for v in ('CancelBid', 'ExpireBid', 'RejectBid'):
        counts[v] = bid_side(eng, v)
    for v, n in counts.items():
        eng.ob(n > 0, PROP, 'floor-ok-path', v, 'no successful path for %s (fail closed)' % v)
    return {
        'explanation': 'R-table: for every successful abstract path of the six reversal requests the multiset of transfers (denomination, amount as polynomial normal form, recipient) equals the spec derived from the property '
                       '(c = supplied size or the whole remainder; bid: q = price*c and the pro-rata fee remF - round0((remQ - q)/Q * F)); the single write is the named order; the written record is the loaded one with only size / approver amount '
                       '(asks) or the three accumulators (bids) changed by exactly what was returned; remove iff the new remainder is zero; partial sizes guarded by lot multiple, bound, >= 1. Amount equalities are decided in the linear-equality domain (I2/I4/I7 assumed on loaded records, path equalities, L-zero/L-unit).',
        'inventory': {'ok_paths': counts, 'infeasible_paths_skipped': dict(eng.infeasible)},
        'trusted_base': ['polynomial normaliser / lemma table (DESIGN §6)', 'interpreter models'],
        'not_decided': ['numeric value of the rounded pro-rata fee (formula agreement only)'],
        'assumptions': ['I2, I4, I7 hold on loaded records (their preservation is C01/C08/C09)'],
    }

import probes as _pb
PROBES = [
    _pb.drop_message('execute', 'RejectBid', 0),
    _pb.drop_facts('execute', 'RejectAsk', '% CFG.size_increment'),
]
