"""atsa layer 2b: rule engine -- path views over the interpreter's summaries, term helpers,
polynomial normal form for amounts, violation/evidence bookkeeping."""
import os, sys, json, pickle, time, hashlib, fractions, collections
sys.path.insert(0, os.path.dirname(os.path.abspath(__file__)))
from norm import Norm, P, PF

VERIF = os.path.dirname(os.path.dirname(os.path.abspath(__file__)))

# ------------------------------------------------------------------ spec-term constructors
SENDER = ('SENDER',); FUNDS = ('FUNDS',); SELF = ('SELF',)
def I(n): return ('int', n)
def S(s): return ('str', s)
def stored(ns, key=None, ver=0): return ('stored', ns, key, ver)
def F(t, *names):
    for n in names: t = ('f', t, n)
    return t
def V(t, variant, name='0'): return ('v', t, variant, name)
def M(variant, name): return ('msg', variant, name)
CFG = stored('contract_info')
VER = stored('version_info')
def EQ(a, b):
    if repr(a) > repr(b): a, b = b, a
    return ('eq', a, b)
def LT(a, b): return ('lt', a, b)
def DEC(s): return ('dec', s)
def MUL(a, b): return ('mul', a, b)
def SUB(a, b): return ('sub', a, b)
def ADD(a, b): return ('add', a, b)
def DIV(a, b): return ('div', a, b)
def REM(a, b): return ('rem', a, b)
def ROUND0(d): return ('round', d, I(0), ('adt', 'rust_decimal::RoundingStrategy', 'MidpointAwayFromZero', ()))
def POW10(p): return ('pow', I(10), ('trunc', p, 'u32'))     # 10u128.pow(precision as u32): precision <= 18 fits
def CONTAINS(c, x): return ('contains', c, x)
def ISEMPTY(x): return ('is_empty', x)
def SOMEV(t): return V(t, 'Some', '0')
def COINS(a, d): return ('coins', a, d)

# ------------------------------------------------------------------ polynomial normal form
class Poly:
    """canonical polynomial over opaque atoms with rational coefficients"""
    __slots__ = ('m',)
    def __init__(self, m=None): self.m = m or {}
    @staticmethod
    def const(c): return Poly({(): fractions.Fraction(c)}) if c else Poly()
    @staticmethod
    def atom(a): return Poly({(a,): fractions.Fraction(1)})
    def __add__(self, o):
        m = dict(self.m)
        for k, v in o.m.items():
            nv = m.get(k, 0) + v
            if nv: m[k] = nv
            else: m.pop(k, None)
        return Poly(m)
    def __neg__(self): return Poly({k: -v for k, v in self.m.items()})
    def __sub__(self, o): return self + (-o)
    def __mul__(self, o):
        m = {}
        for k1, v1 in self.m.items():
            for k2, v2 in o.m.items():
                k = tuple(sorted(k1 + k2, key=repr)); nv = m.get(k, 0) + v1 * v2
                if nv: m[k] = nv
                else: m.pop(k, None)
        return Poly(m)
    def key(self): return tuple(sorted(((k, (v.numerator, v.denominator)) for k, v in self.m.items()), key=repr))
    def __eq__(self, o): return isinstance(o, Poly) and self.m == o.m
    def __hash__(self): return hash(self.key())
    def is_zero(self): return not self.m
    def is_const(self): return all(k == () for k in self.m)
    def atoms(self):
        s = set()
        for k in self.m: s.update(k)
        return s
    def __repr__(self):
        if not self.m: return '0'
        parts = []
        for k, v in sorted(self.m.items(), key=repr):
            mono = '*'.join(P(a) if isinstance(a, tuple) and a and a[0] != 'polyatom' else PA(a) for a in k)
            c = str(v) if v.denominator != 1 else str(v.numerator)
            if not k: parts.append(c)
            elif v == 1: parts.append(mono)
            elif v == -1: parts.append('-' + mono)
            else: parts.append(c + '*' + mono)
        return ' + '.join(parts).replace('+ -', '- ')

def PA(a):
    if isinstance(a, tuple) and a and a[0] == 'polyatom':
        return '%s(%s)' % (a[1], ', '.join(repr(x) for x in a[2]))
    return P(a)

def poly(t, subst=None):
    """normalised amount term -> Poly; casts are already erased by the normaliser. `subst` maps atoms to Polys"""
    k = t[0]
    if k == 'int': return Poly.const(t[1])
    if k == 'add': return poly(t[1], subst) + poly(t[2], subst)
    if k == 'sub': return poly(t[1], subst) - poly(t[2], subst)
    if k == 'mul': return poly(t[1], subst) * poly(t[2], subst)
    if k == 'div': a = ('polyatom', 'div', (poly(t[1], subst), poly(t[2], subst)))
    elif k == 'round':
        mode = (t[2], t[3])
        a = ('polyatom', 'round', (poly(t[1], subst), mode))
    elif k == 'rem': a = ('polyatom', 'rem', (poly(t[1], subst), poly(t[2], subst)))
    elif k == 'pow': a = ('polyatom', 'pow', (poly(t[1], subst), poly(t[2], subst)))
    else: a = t
    if subst and a in subst: return subst[a]
    return Poly.atom(a)

def peq(a, b, subst=None):
    return poly(a, subst) == poly(b, subst)

# ------------------------------------------------------------------ path views
EXTERNAL_CRATES = ('std', 'core', 'alloc', 'cosmwasm_std', 'provwasm_std', 'rust_decimal', 'cw_storage_plus', 'semver', 'serde', 'serde_json', 'uuid', 'schemars', 'prost', 'thiserror')
def is_local_type(name):
    return isinstance(name, str) and name.split('::', 1)[0].lstrip('<&') not in EXTERNAL_CRATES

def canon(t):
    """constructor terms compared up to field order and up to the Rust path / name of crate-local types (a type may be renamed or moved
    between modules without changing behaviour; its variant names and field names are what the stored JSON carries)"""
    if isinstance(t, tuple) and t and t[0] == 'adt' and len(t) == 4:
        ty, var = t[1], t[2]
        if is_local_type(ty):
            if var == ty.rsplit('::', 1)[-1]: var = '~'      # struct: the constructor is the type itself
            ty = '~'
        return ('adt', ty, var, tuple(sorted((n, canon(x)) for n, x in t[3])))
    if isinstance(t, tuple): return tuple(canon(x) for x in t)
    return t

def fee_presence(eng, PROP, p, FEE, what):
    """'Some' / 'None' as established on the path. A path that settles a bid (pays it out, rewrites or removes it) must know whether the
    bid carries a fee: the two cases require different behaviour (fee returned pro rata / nothing), so a path that never looks is wrong
    for one of them. When undetermined this is reported and the fee-bearing case is assumed for the remaining obligations."""
    v = p.variant_of(FEE)
    if FEE[0] == 'adt': v = FEE[2]
    eng.ob(v in ('Some', 'None'), PROP, 'fee-presence', '%s:%s' % (p.variant, what),
           '%s: %s on a path that never establishes whether the bid carries a fee (a fee-bearing bid would keep or strand its fee)' % (p.variant, what), where=p, detail=p.describe(14))
    return v if v in ('Some', 'None') else 'Some'

def ask_class_presence(eng, PROP, p, ASK, what):
    """'Basic' / 'Pending' / 'Ready' as established on the path. A path that pays out or rewrites an ask must know its class: an approved
    convertible ask also holds the approver's escrow, so a path that never looks is wrong for one class. Reported when undetermined;
    the approved class is then assumed for the remaining obligations."""
    CLASS = F(ASK, 'class'); STATUS = V(CLASS, 'Convertible', 'status')
    def var(t, universe):
        v = p.variant_of(t)
        if v is None:
            for f, _, _ in p.facts:
                if f[0] == 'isnot' and f[1] == t:
                    rest = [u for u in universe if u not in f[2]]
                    if len(rest) == 1: v = rest[0]
        return v
    c = var(CLASS, ('Basic', 'Convertible')); r = None
    if c == 'Basic': r = 'Basic'
    elif c == 'Convertible':
        s_ = var(STATUS, ('PendingIssuerApproval', 'Ready'))
        r = {'Ready': 'Ready', 'PendingIssuerApproval': 'Pending'}.get(s_)
    eng.ob(r is not None, PROP, 'class-presence', '%s:%s' % (p.variant, what),
           '%s: %s on a path that never establishes whether the ask is plain, pending or approved (an approved ask also holds the approver\'s escrow)' % (p.variant, what), where=p, detail=p.describe(14))
    return r or 'Ready'

def _ordterm(t):
    return t[0] in ('add', 'sub', 'mul', 'div', 'int', 'round', 'dec', 'f', 'v', 'msg', 'rem', 'min', 'stored')

class PathView:
    def __init__(self, eng, root, exit_):
        self.eng = eng; self.root = root; self.e = exit_; self.kind = exit_['kind']
        self._facts = None; self._eff = None; self._msgs = None; self._attrs = None; self._fi = None; self._si = None
        self.variant = None
        for f, _, _ in exit_['facts']:
            if f[0] == 'is' and f[1] == ('sym', 'msg'): self.variant = f[2]; break

    @property
    def N(self): return self.eng.N[self.root]

    @property
    def facts(self):
        if self._facts is None:
            N = self.N
            self._facts = [(N.fact(f), site, stack) for f, site, stack in self.e['facts']]
        return self._facts

    @property
    def fact_index(self):
        if self._fi is None:
            d = {}
            for i, (f, _, _) in enumerate(self.facts):
                d.setdefault(f, i)
                if f[0] == 'or':
                    pass
            self._fi = d
        return self._fi

    def pos(self, fact):
        """index of a (normalised) fact on this path or None. ('pos', X) / ('zero', X) are pseudo-facts satisfied by any
        spelling of X > 0 / X == 0 (see sign_of_fact); comparisons against 0 / 1 are looked up through them as well"""
        if fact[0] in ('pos', 'zero'):
            return self.sign_index.get((fact[1], fact[0]))
        r = self.fact_index.get(fact)
        if r is None:
            sf = sign_of_fact(fact)
            if sf is not None: return self.sign_index.get(sf)
            # x <= a established through x <= min(a, b):  [min(a, b) < x] = False  implies  [a < x] = False
            if fact[0] == 'val' and fact[2] is False and fact[1][0] == 'lt':
                a, x = fact[1][1], fact[1][2]
                for i, (f, _, _) in enumerate(self.facts):
                    if f[0] == 'val' and f[2] is False and f[1][0] == 'lt' and f[1][2] == x and f[1][1][0] == 'min' and a in f[1][1][1:]: return i
        return r

    @property
    def sign_index(self):
        if self._si is None:
            d = {}
            for i, (f, _, _) in enumerate(self.facts):
                sf = sign_of_fact(f)
                if sf is not None: d.setdefault(sf, i)
            self._si = d
        return self._si

    def implied_equalities(self):
        """equalities between numeric terms that follow from the path's order facts without being stated:
        e.g. [b < a] = False, m == a, [m < b] = False  ==>  a == b (the total order of Decimal / integers).
        Decided by enumerating the weak orderings of each connected component of at most 5 terms (larger ones: nothing inferred)."""
        if getattr(self, '_impl_eq', None) is not None: return self._impl_eq
        ofs = []
        for f, _, _ in self.facts:
            of = None
            if f[0] == 'val' and isinstance(f[2], bool) and f[1][0] == 'eq': of = ('eq' if f[2] else 'ne', f[1][1], f[1][2])
            elif f[0] == 'val' and isinstance(f[2], bool) and f[1][0] == 'lt': of = ('lt' if f[2] else 'ge', f[1][1], f[1][2])
            elif f[0] == 'is' and f[1][0] == 'ordcmp':
                of = {'Less': ('lt', f[1][1], f[1][2]), 'Equal': ('eq', f[1][1], f[1][2]), 'Greater': ('lt', f[1][2], f[1][1])}.get(f[2])
            if of is None: continue
            if not (isinstance(of[1], tuple) and isinstance(of[2], tuple) and _ordterm(of[1]) and _ordterm(of[2])): continue
            if of not in ofs: ofs.append(of)
        out = []
        rest = list(ofs)
        while rest:
            seedf = rest.pop(0); comp = {seedf[1], seedf[2]}; facts = [seedf]; changed = True
            while changed:
                changed = False
                for of in list(rest):
                    if (of[1][0] != 'int' and of[1] in comp) or (of[2][0] != 'int' and of[2] in comp):
                        comp.add(of[1]); comp.add(of[2]); facts.append(of); rest.remove(of); changed = True
            if len(facts) < 2 or len(comp) > 5: continue
            terms = sorted(comp, key=repr); n = len(terms); idx = {t: i for i, t in enumerate(terms)}
            consts = [(i, t[1]) for t, i in idx.items() if t[0] == 'int']
            always = None
            import itertools
            for ranks in itertools.product(range(n), repeat=n):
                ok = True
                for (i, a) in consts:
                    for (j, b) in consts:
                        if i < j and ((a < b) != (ranks[i] < ranks[j]) or (a == b) != (ranks[i] == ranks[j])): ok = False
                if not ok: continue
                for rel, a, b in facts:
                    ra, rb = ranks[idx[a]], ranks[idx[b]]
                    if (rel == 'eq' and ra != rb) or (rel == 'ne' and ra == rb) or (rel == 'lt' and not ra < rb) or (rel == 'ge' and not ra >= rb): ok = False; break
                if not ok: continue
                eqs = set((i, j) for i in range(n) for j in range(i + 1, n) if ranks[i] == ranks[j])
                always = eqs if always is None else (always & eqs)
                if not always: break
            stated = set()
            for rel, a, b in facts:
                if rel == 'eq': stated.add((min(idx[a], idx[b]), max(idx[a], idx[b])))
            for (i, j) in sorted(always or ()):
                if (i, j) not in stated: out.append((terms[i], terms[j]))
        self._impl_eq = out
        return out

    def signs(self):
        """[(X, 'pos'|'zero')] for all sign facts of the path"""
        return list(self.sign_index.keys())

    def holds(self, pred, value=True):
        if pred[0] == 'bool': return 0 if pred[1] == value else None
        if pred[0] == 'not': return self.holds(pred[1], not value)
        return self.pos(('val', pred, value))

    def str_empty(self, term, value=True):
        """the path established (or refuted) that a string is empty: `x == ""`, `"" == x`, or `x.is_empty()`"""
        r = self.holds(EQ(S(''), term), value)
        return r if r is not None else self.holds(ISEMPTY(term), value)

    def is_variant(self, term, variant):
        if term[0] == 'adt': return 0 if term[2] == variant else None
        return self.pos(('is', term, variant))

    def variant_of(self, term):
        if term[0] == 'adt': return term[2]
        for f, _, _ in self.facts:
            if f[0] == 'is' and f[1] == term: return f[2]
        # implied by a disjunctive fact (merged outcomes of a boolean helper such as `a.is_some() == b.is_some()`): every alternative
        # that the path's direct facts do not contradict fixes the same variant
        direct = None
        for f, _, _ in self.facts:
            if f[0] != 'or': continue
            if direct is None: direct = {g[1]: g[2] for g, _, _ in self.facts if g[0] == 'is'}
            live = [alt for alt in f[1] if not any(g[0] == 'is' and direct.get(g[1], g[2]) != g[2] for g in alt)]
            vs = set()
            for alt in live:
                v = [g[2] for g in alt if g[0] == 'is' and g[1] == term]
                vs.add(v[0] if v else None)
            if live and len(vs) == 1 and None not in vs: return vs.pop()
        return None

    @property
    def effects(self):
        if self._eff is None:
            N = self.N; out = []
            for ef in self.e['effects']:
                op, ns, key, val, res, site, stack, fpos = ef
                nv = (N(val) if (val is not None and op != 'read') else val)
                if op == 'save' and self.root == 'execute' and isinstance(ns, str): nv = rebuilt_as_update(ns, nv)
                out.append({'op': op, 'ns': ns, 'key': N(key) if key is not None else None,
                            'val': nv, 'site': site,
                            'stack': stack, 'fpos': fpos, 'res': res})
            self._eff = out
        return self._eff

    @property
    def writes(self): return [e for e in self.effects if e['op'] in ('save', 'remove', 'unknown_storage_api')]

    @property
    def response(self):
        rv = self.e['ret']
        if rv and rv[0] == 'adt' and rv[2] == 'Ok':
            r = rv[3][0][1]
            if r[0] == 'resp': return r
        return None

    @property
    def messages(self):
        if self._msgs is None:
            r = self.response; N = self.N; out = []
            if r is not None:
                for m in r[1]:
                    if m[0] in ('msg', 'submsg'):
                        out.append({'kind': m[0], 'term': N(m[1]), 'site': m[2], 'stack': m[3], 'targs': m[4],
                                    'fpos': m[5] if len(m) > 5 else None})
                    else:
                        out.append({'kind': 'opaque', 'term': N(m[1]) if len(m) > 1 else None, 'site': None, 'stack': (), 'targs': (), 'fpos': None})
            self._msgs = out
        return self._msgs

    @property
    def attrs(self):
        if self._attrs is None:
            r = self.response; N = self.N; out = []
            if r is not None:
                for a in r[2]:
                    if a[0] == 'attr': out.append((N(a[1]), N(a[2]), a[3]))
                    else: out.append((('opaque',), N(a[1]) if a[1] is not None else None, a[3] if len(a) > 3 else None))
            self._attrs = out
        return self._attrs

    def attr(self, key):
        return [v for k, v, _ in self.attrs if k == ('str', key)]

    def where(self):
        """a source position for diagnostics about the whole path: the first storage write, else the last guard"""
        for ef in self.e['effects']:
            if ef[0] in ('save', 'remove'): return ef[5]
        for f, site, _ in reversed(self.facts):
            if site and 'rustlib' not in site: return site
        return None

    def describe(self, maxfacts=30):
        """the last guard facts of the path, as text (computed only if a violation is actually recorded)"""
        return LazyLines(lambda: self._describe(maxfacts))

    def _describe(self, maxfacts=30):
        maxfacts = maxfacts or 30
        lines = ['path (%s exit, request %s), last %d guard facts:' % (self.kind, self.variant, min(maxfacts, len(self.facts)))]
        for f, site, stack in self.facts[-maxfacts:]:
            lines.append('%s  %s' % (short_site(site), abbreviate(PF(f))[:220]))
        return lines

def _split_erf(pol):
    """pol == rest - round0(F * div(N, Q)): returns {'rest','N','Q','F'} or None"""
    hit = None
    for mono, c in pol.m.items():
        if len(mono) == 1 and isinstance(mono[0], tuple) and mono[0] and mono[0][0] == 'polyatom' and mono[0][1] == 'round' and c == -1:
            if hit is not None: return None
            hit = mono[0]
    if hit is None: return None
    inner = hit[2][0]
    if len(inner.m) != 1: return None
    (mono, c), = inner.m.items()
    if c != 1 or len(mono) != 2: return None
    dv = [a for a in mono if isinstance(a, tuple) and a and a[0] == 'polyatom' and a[1] == 'div']
    other = [a for a in mono if not (isinstance(a, tuple) and a and a[0] == 'polyatom')]
    if len(dv) != 1 or len(other) != 1: return None
    rest = Poly({m2: v for m2, v in pol.m.items() if m2 != (hit,)})
    return {'rest': rest, 'N': dv[0][2][0], 'Q': dv[0][2][1], 'F': other[0]}

def rebuilt_as_update(ns, val):
    """`Rec { changed: v, ..stored }` (struct update syntax, or a field-by-field rebuild) is `stored with { changed: v }`: a constructor term
    whose other fields are the same-named fields of ONE record loaded from the namespace it is saved to, with fewer than half of the fields
    replaced. Applied to saves of `execute` only (in `migrate` a record built from an old-format record is a conversion, not an update)."""
    if val is None or val[0] != 'adt' or len(val[3]) < 3: return val
    base = None; changed = []
    for n, v in val[3]:
        if v[0] == 'f' and v[2] == n and v[1][0] == 'stored' and v[1][1] == ns and (base is None or base == v[1]): base = v[1]
        else: changed.append((('f', n), v))
    if base is None or len(changed) * 2 > len(val[3]): return val
    return ('upd', base, tuple(sorted(changed, key=repr))) if changed else base

def sign_of_fact(f):
    """(X, 'pos'|'zero') when the fact establishes X > 0 or X == 0 for an unsigned amount X, in any of the equivalent
    spellings  0 < X,  X < 1,  X == 0,  X != 0,  is_zero(X),  match X { 0 => .. }  -- else None"""
    if f[0] == 'val' and isinstance(f[2], bool):
        pr = f[1]
        if pr[0] == 'lt' and pr[1] == ('int', 0): return (pr[2], 'pos' if f[2] else 'zero')
        if pr[0] == 'lt' and pr[2] == ('int', 1): return (pr[1], 'zero' if f[2] else 'pos')
        if pr[0] == 'eq' and ('int', 0) in pr[1:]:
            other = pr[2] if pr[1] == ('int', 0) else pr[1]
            return (other, 'zero' if f[2] else 'pos')
    if f[0] == 'val' and f[2] == 0 and not isinstance(f[2], bool) and isinstance(f[1], tuple): return (f[1], 'zero')
    if f[0] == 'nval' and 0 in f[2]: return (f[1], 'pos')
    return None

def is_sign(f, x, sign):
    sf = sign_of_fact(f) if f is not None else None
    return sf is not None and sf == (x, sign)

def const_truth(pred):
    """truth value of an eq/lt predicate when the polynomial difference of its sides is a constant, else None"""
    if pred[0] == 'eq':
        d = poly(pred[1]) - poly(pred[2])
        if d.is_const(): return d.is_zero()
    if pred[0] == 'lt':
        d = poly(pred[2]) - poly(pred[1])
        if d.is_const(): return (d.m.get((), 0) > 0)
    return None

NUMERIC_HEADS = ('add', 'sub', 'mul', 'int', 'div', 'round')
def looks_numeric(t):
    return t[0] in NUMERIC_HEADS

def infeasible_reason(p):
    """device (ii) of DESIGN §3: a branch whose predicate folds to a constant that contradicts the outcome taken;
    plus lemma L-pos. Returns a short reason or None."""
    facts = p.facts
    for f, site, _ in facts:
        if f[0] == 'val' and isinstance(f[2], bool) and f[1][0] in ('eq', 'lt') and (looks_numeric(f[1][1]) or looks_numeric(f[1][2])):
            tv = const_truth(f[1])
            if tv is not None and tv != f[2]:
                return 'fold: [%s] is constantly %s' % (P(f[1])[:120], tv)
    # x < x is never true, x == x never false (any terms)
    for f, site, _ in facts:
        if f[0] == 'val' and isinstance(f[2], bool) and isinstance(f[1], tuple) and len(f[1]) == 3 and f[1][1] == f[1][2]:
            if (f[1][0] == 'lt' and f[2] is True) or (f[1][0] == 'eq' and f[2] is False):
                return 'fold: [%s] is constantly %s' % (P(f[1])[:120], not f[2])
    # a - a never underflows: checked_sub(x, y) failing while x - y folds to a non-negative constant
    for f, site, _ in facts:
        if f[0] == 'is' and f[2] in ('Err', 'None') and f[1][0] == 'rcall' and f[1][1] == 'checked_sub':
            d = poly(f[1][2][0]) - poly(f[1][2][1])
            if d.is_const() and d.m.get((), 0) >= 0:
                return 'fold: checked_sub(%s) cannot fail' % P(f[1][2][0])[:60]
    # L-mono: x -> R - round0(F * x / Q) is non-increasing in x; so with N1 > N2 (or equal):  R - ERF(N1) > 0  implies  R - ERF(N2) > 0
    pro = []
    signs = [sf for sf in (sign_of_fact(f) for f, _, _ in facts) if sf is not None and isinstance(sf[0], tuple)]
    for x, sg in signs:
        if looks_numeric(x):
            d = _split_erf(poly(x))
            if d is not None: pro.append((d, sg == 'pos'))
    if len(pro) >= 2:
        positives = [poly(x) for x, sg in signs if sg == 'pos' and looks_numeric(x)]
        for (d1, v1) in pro:
            for (d2, v2) in pro:
                if v1 is True and v2 is False and d1['rest'] == d2['rest'] and d1['Q'] == d2['Q'] and d1['F'] == d2['F']:
                    diff = d1['N'] - d2['N']
                    if diff.is_zero() or any(diff == pp for pp in positives):
                        return 'L-mono: the pro-rata fee due grows with the quote consumed, so fee(g1) > 0 and fee(g2) = 0 with g2 >= g1 is impossible'
    # L-pos: exec < bid, size >= 1, both products integral  =>  bid*size - exec*size >= 1
    for x, sg in signs:
        if sg == 'zero':
            if x[0] == 'sub' and x[1][0] == 'mul' and x[2][0] == 'mul' and x[1][2] == x[2][2]:
                hi, lo, sz = x[1][1], x[2][1], x[1][2]
                need = [('val', ('lt', lo, hi), True), ('pos', sz),
                        ('val', EQ(('fract', ('mul', hi, sz)), ('int', 0)), True), ('val', EQ(('fract', ('mul', lo, sz)), ('int', 0)), True)]
                if all(p.pos(n) is not None for n in need):
                    return 'L-pos: (hi-lo)*size >= 1 when lo < hi, size >= 1 and both products are integral'
    return None

def short_site(site):
    if not site: return '-'
    if '/rustlib/' in site: return 'core:' + site.rsplit('/', 1)[-1]
    return site

def transfer_of(msg):
    """decode a message term into a transfer descriptor or None"""
    t = msg['term']
    if t[0] != 'adt': return None
    if t[1] == 'cosmwasm_std::BankMsg' and t[2] == 'Send':
        d = dict(t[3]); amt = d.get('amount')
        if amt is None or amt[0] != 'coins': return {'mech': 'bank', 'bad': 'amount not coins(a, d)', 'term': t}
        return {'mech': 'bank', 'to': d.get('to_address'), 'amount': amt[1], 'denom': amt[2], 'from': SELF, 'admin': None}
    if t[1] == 'provwasm_std::types::provenance::marker::v1::MsgTransferRequest':
        d = dict(t[3]); c = d.get('amount')
        out = {'mech': 'marker', 'to': d.get('to_address'), 'from': d.get('from_address'), 'admin': d.get('administrator')}
        if c and c[0] == 'adt' and c[2] == 'Some':
            coin = dict(c[3])['0']
            if coin[0] == 'adt':
                cd = dict(coin[3]); a = cd.get('amount'); out['denom'] = cd.get('denom')
                if a and a[0] == 'tostr': a = a[1]
                out['amount'] = a
                return out
        out['bad'] = 'amount is not Some(Coin{denom, amount})'
        return out
    return None

# ------------------------------------------------------------------ engine
class LazyLines:
    """a list of text lines produced on demand"""
    def __init__(self, fn): self.fn = fn; self.v = None
    def get(self):
        if self.v is None: self.v = list(self.fn())
        return self.v
    def __iter__(self): return iter(self.get())
    def __len__(self): return len(self.get())
    def __getitem__(self, i): return self.get()[i]
    def __bool__(self): return True

class Violation:
    def __init__(self, prop, rule, key, msg, where=None, detail=None):
        self.prop = prop; self.rule = rule; self.key = key; self.msg = msg; self.where = where; self.detail = list(detail) if detail else []

class Engine:
    def __init__(self, summ):
        self.s = summ
        self.N = {k: Norm(k) for k in summ['roots']}
        self._paths = {}
        self.violations = []
        self.obligations = 0
        self.discharged = 0
        self.instances = collections.Counter()
        self.samples = []
        self.notes = []
        self.infeasible = collections.Counter()

    def paths(self, root, kind=None, variant=None, feasible_only=True):
        if root not in self._paths:
            allp = [PathView(self, root, e) for e in self.s['roots'][root]['exits']]
            feas = []
            for p in allp:
                r = infeasible_reason(p) if p.kind in ('ok', 'ret', 'err') else None
                p.infeasible = r
                if r is not None: self.infeasible[r.split(':')[0]] += 1
            self._paths[root] = allp
        ps = self._paths[root]
        if feasible_only: ps = [p for p in ps if p.infeasible is None]
        if kind is not None:
            kinds = (kind,) if isinstance(kind, str) else kind
            ps = [p for p in ps if p.kind in kinds]
        if variant is not None: ps = [p for p in ps if p.variant == variant]
        return ps

    def aborts(self, root):
        return self.s['roots'][root].get('aborts', [])

    # obligations
    def ob(self, ok, prop, rule, key, msg, where=None, detail=None, sample=None):
        if isinstance(where, PathView): where = where.where()
        self.obligations += 1
        self.instances[rule] += 1
        if ok:
            self.discharged += 1
            if sample is not None and len(self.samples) < 12 and not any(s.get('rule') == rule for s in self.samples[-3:]):
                self.samples.append(sample)
        else:
            self.violations.append(Violation(prop, rule, key, msg, where, detail))
        return ok

    def fail(self, prop, rule, key, msg, where=None, detail=None):
        return self.ob(False, prop, rule, key, msg, where, detail)

import re as _re
def abbreviate(s):
    s = _re.sub(r'\[msg::[A-Za-z]+\.[a-z_]+\]', '', s)
    s = _re.sub(r'msg::[A-Za-z]+\.', 'msg.', s)
    return s

def on_book_facts(ns, key, ver=0):
    """alternative fact sets establishing that the order `key` is on the book `ns`: a successful load, or may_load == Ok(Some)"""
    return [[('is', ('sload', ns, key, 'load', ver), 'Ok')],
            [('is', ('sload', ns, key, 'may_load', ver), 'Ok'), ('is', ('mayload_opt', ns, key, ver), 'Some')]]

def is_not_on_book(f, ns, key, ver=0):
    """decisive fact of 'unknown id': load failed, or may_load returned None (or failed)"""
    return f in (('is', ('sload', ns, key, 'load', ver), 'Err'), ('is', ('mayload_opt', ns, key, ver), 'None'), ('is', ('sload', ns, key, 'may_load', ver), 'Err'))

def id_not_canonical_fact(f, idt):
    """decisive fact of 'id is not a canonical hyphenated UUID': parse failure, or parsed but different from its hyphenated rendering
    (as two plain facts, or as the OR-fact of a merged boolean helper)"""
    if f is None: return False
    up = ('uuid_parse', idt)
    def plain(x):
        if x == ('is', up, 'Err'): return True
        return x[0] == 'val' and x[2] is False and x[1][0] == 'eq' and idt in x[1][1:] and 'hyphenated' in repr(x[1])
    if f[0] == 'or':
        return all(any(plain(x) for x in alt) for alt in f[1])
    return plain(f)

def nget(t, steps):
    """read a path of ('f', name) / ('v', Variant, name) steps from a normalised term, looking through `with` updates"""
    for st in steps:
        if t[0] == 'upd':
            hit = None
            for s, v in t[2]:
                if s == st: hit = v; break
            if hit is not None: t = hit; continue
            t = nget(t[1], (st,)); continue
        if t[0] == 'adt':
            if st[0] == 'f':
                d = dict(t[3])
                if st[1] in d: t = d[st[1]]; continue
            elif st[0] == 'v' and t[2] == st[1]:
                d = dict(t[3])
                if st[2] in d: t = d[st[2]]; continue
        t = ('f', t, st[1]) if st[0] == 'f' else ('v', t, st[1], st[2])
    return t

def upd_paths(rec, base, prefix=()):
    """all leaf update paths of rec relative to base: list of (path, value); None if rec does not derive from base"""
    if rec == base: return []
    if rec[0] != 'upd' or rec[1] != base: return None
    out = []
    for s, v in rec[2]:
        sub_base = nget(base, (s,))
        sub = upd_paths(v, sub_base, prefix + (s,))
        if sub is None: out.append((prefix + (s,), v))
        else: out.extend(sub)
    return out

def K(t):
    """stable key string of a normalised term (no line numbers)"""
    return abbreviate(P(t))

class Equiv:
    """equivalence of terms on one path: path equalities (facts `a == b` = True) plus named invariant equivalences"""
    def __init__(self, p, extra=()):
        self.parent = {}
        for f, _, _ in p.facts:
            if f[0] == 'val' and f[2] is True and f[1][0] == 'eq': self.union(f[1][1], f[1][2])
        for a, b in extra: self.union(a, b)
    def find(self, x):
        while self.parent.get(x, x) != x: x = self.parent[x]
        return x
    def union(self, a, b):
        ra, rb = self.find(a), self.find(b)
        if ra != rb: self.parent[ra] = rb
    def same(self, a, b): return a == b or self.find(a) == self.find(b)

# ------------------------------------------------------------------ known findings
def load_known(path=None):
    path = path or os.path.join(VERIF, 'known_findings.txt')
    known = {}
    if os.path.exists(path):
        for line in open(path):
            line = line.strip()
            if line.startswith('known:'):
                parts = line[len('known:'):].strip().split(' ', 2)
                d = {}
                for p in parts[:2]:
                    if '=' in p:
                        k, v = p.split('=', 1); d[k] = v
                if 'property' in d and 'key' in d:
                    known[(d['property'], d['key'])] = parts[2] if len(parts) > 2 else ''
    return known
