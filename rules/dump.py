#!/usr/bin/env python3
import pickle,sys,collections,os
sys.path.insert(0, os.path.dirname(os.path.abspath(__file__)))
from norm import Norm,P,PF
r=pickle.load(open(sys.argv[1],'rb'))
root=sys.argv[2]; variant=sys.argv[3] if len(sys.argv)>3 else None
kind=sys.argv[4] if len(sys.argv)>4 else 'ok'
limit=int(sys.argv[5]) if len(sys.argv)>5 else 2
N=Norm(root)
ex=r['roots'][root]['exits']
def var_of(e):
    for f,_,_ in e['facts']:
        if f[0]=='is' and f[1]==('sym','msg'): return f[2]
sel=[e for e in ex if e['kind']==kind and (variant is None or var_of(e)==variant)]
print(len(sel),'exits')
for e in sel[:limit]:
    print('=== exit',e['kind'],e['site'])
    for f,site,stack in e['facts']:
        print('  F %-28s %s'%(site.split('/')[-1] if site else site, PF(N.fact(f))[:400]))
    for ef in e['effects']:
        op,ns,key,val=ef[0],ef[1],ef[2],ef[3]
        if op=='read': print('  E read %s[%s] %s'%(ns,P(N(key)) if key else '',val))
        else: print('  E %s %s[%s] := %s'%(op,ns,P(N(key)) if key else '',P(N(val))[:1500] if val else None))
    rv=e['ret']
    if rv and rv[0]=='adt' and rv[2]=='Ok':
        resp=rv[3][0][1]
        if resp[0]=='resp':
            for m in resp[1]:
                print('  M',m[2].split('/')[-1],P(N(m[1]))[:600])
            for a in resp[2]:
                print('  A',P(N(a[1])),'=',P(N(a[2]))[:300] if a[2] else None)
        else: print('  R',P(N(resp))[:500])
    else: print('  R',P(N(rv))[:500] if rv else None)
