"""C05 Authorization (R-guard per handler path, R-write who-may-write, refusal leaves no write)."""
from engine import *

PROP = 'C05'

def ASK(v, idf='id'): return stored('ask', M(v, idf))
def BID(v, idf='id'): return stored('bid', M(v, idf))

# variant -> list of (predicate, value) that must hold on every path before any write and at Ok
TABLE = {
    'ApproveAsk':     lambda v: [(CONTAINS(F(CFG, 'approvers'), SENDER), True)],
    'CancelAsk':      lambda v: [(EQ(SENDER, F(ASK(v), 'owner')), True)],
    'CancelBid':      lambda v: [(EQ(SENDER, F(BID(v), 'owner')), True)],
    'ExpireBid':      lambda v: [(CONTAINS(F(CFG, 'executors'), SENDER), True)],
    'RejectBid':      lambda v: [(CONTAINS(F(CFG, 'executors'), SENDER), True)],
    'ExpireAsk':      lambda v: [(CONTAINS(F(CFG, 'executors'), SENDER), True)],
    'RejectAsk':      lambda v: [(CONTAINS(F(CFG, 'executors'), SENDER), True)],
    'ExecuteMatch':   lambda v: [(CONTAINS(F(CFG, 'executors'), SENDER), True)],
    'ModifyContract': lambda v: [(CONTAINS(F(CFG, 'executors'), SENDER), True)],
}
OPEN_VARIANTS = {'CreateAsk', 'CreateBid'}   # anyone may place an order (admission is C07)

def msg_variants(eng):
    # the request type is the last parameter of the `execute` entry point (its Rust name is irrelevant)
    sig = eng.s['roots'].get('execute', {}).get('sig') or {}
    ty = (sig.get('inputs') or [None])[-1]
    for a in eng.s['adts']:
        if a['def'] == ty: return [v['name'] for v in a['variants']]
    return None

def run(eng, tier):
    variants = msg_variants(eng)
    if not variants:
        eng.fail(PROP, 'anchor', 'ExecuteMsg', 'unestablished: message type ExecuteMsg not found'); return {}
    for v in variants:
        eng.ob(v in TABLE or v in OPEN_VARIANTS, PROP, 'dispatch-classified', v,
               'request kind %s has no authorization class in the spec table (new request kind?)' % v)
    N = eng.N['execute']
    nwrites = 0; sites = set()
    for v, req in TABLE.items():
        oks = eng.paths('execute', 'ok', v)
        eng.ob(len(oks) > 0, PROP, 'floor-ok-path', v, 'no successful path found for request kind %s (fail closed)' % v)
        required = req(v)
        for p in eng.paths('execute', None, v):
            ws = p.writes
            if p.kind != 'ok' and not ws: continue
            first_w = min([w['fpos'] for w in ws]) if ws else None
            for pred, val in required:
                pos = p.holds(pred, val)
                ok = pos is not None and (first_w is None or pos < first_w)
                what = 'Ok exit' if p.kind == 'ok' else 'storage write (%s exit)' % p.kind
                eng.ob(ok, PROP, 'guard', '%s:%s' % (v, K(pred)),
                       '%s: a path reaches %s without the authorization fact [%s] = %s %s' % (
                           v, what, K(pred), val, '' if pos is None else '(established only after the first write)'),
                       where=(ws[0]['site'] if ws else None), detail=p.describe(),
                       sample={'rule': 'guard', 'request': v, 'fact': K(pred), 'value': val, 'writes': len(ws), 'exit': p.kind})
            for w in ws: nwrites += 1; sites.add((w['op'], w['ns'], w['site']))
        # aborts that happen after a write
        for a in eng.aborts('execute'):
            if not a.get('writes_before'): continue
            var = None
            for f in a['first_facts']:
                if f[0][0] == 'is' and f[0][1] == ('sym', 'msg'): var = f[0][2]; break
            if var != v: continue
            common = set(N.fact(f) for f in a['common'])
            for pred, val in required:
                eng.ob(('val', pred, val) in common, PROP, 'guard-abort', '%s:%s' % (v, K(pred)),
                       '%s: an abort site after a storage write is reachable without [%s]' % (v, K(pred)), where=a['site'])
    # role lists changed by configuration requests take effect: a supplied list is what gets stored
    from c12 import validated_list
    for p in eng.paths('execute', 'ok', 'ModifyContract'):
        for fld in ('executors', 'approvers'):
            mv = M('ModifyContract', fld)
            if p.variant_of(mv) != 'Some': continue
            saves = [w for w in p.writes if w['ns'] == 'contract_info' and w['op'] == 'save']
            ok = len(saves) == 1 and validated_list(SOMEV(mv), nget(saves[0]['val'], (('f', fld),)))
            eng.ob(ok, PROP, 'role-list-installed', fld, 'an accepted ModifyContract supplying %s does not store exactly that list (a removed address would keep its role)' % fld,
                   where=(saves[0]['site'] if saves else None), detail=p.describe(12))
    # who may write: writes under `execute` only in classified variants
    for p in eng.paths('execute'):
        if p.writes and p.variant not in TABLE and p.variant not in OPEN_VARIANTS:
            eng.fail(PROP, 'who-may-write', str(p.variant), 'storage write under unclassified request kind %s' % p.variant, where=p.writes[0]['site'])
    # the role lists and owners come from storage of the same request (term identity): nothing more to check.
    # refusal by the guard leaves no write: err exits lacking the fact have no writes (covered by 'guard' above).
    return {
        'explanation': 'R-guard: for each role-restricted request kind (discovered from the ExecuteMsg definition and the dispatch in `execute`, handlers inlined), '
                       'every abstract path that reaches an Ok exit or performs a storage write holds the role fact (sender in the stored approver/executor list, or sender == stored owner of the order loaded under the request id) '
                       'before the first write; the facts are per path, so a weakened disjunctive guard leaves a path without the fact. All paths of the MIR CFG are enumerated (no sampling).',
        'inventory': {'write_effects_on_guarded_paths': nwrites, 'distinct_write_sites': len(sites), 'request_kinds': variants},
        'trusted_base': ['interpreter models of cw_storage_plus / Option / Result / ? (DESIGN §3)', 'chain rolls back refused requests'],
        'not_decided': [],
        'assumptions': ['contains()/== on Addr are the library predicates they name'],
    }

import probes as _pb
PROBES = [
    _pb.drop_facts('execute', 'ExpireAsk', 'contains(CFG.executors, SENDER)'),
    _pb.drop_facts('execute', 'CancelBid', 'SENDER == BID.owner'),
    _pb.drop_facts('execute', 'ApproveAsk', 'contains(CFG.approvers, SENDER)'),
]
