#!/bin/bash
# usage: extract.sh <out.json> [dev|release]  -- runs the driver over /repo's working tree
set -e
OUT=$(realpath -m "$1"); PROFILE=${2:-dev}
REPO=${ATSA_REPO:-/repo}
export LD_LIBRARY_PATH=$(rustc +nightly --print sysroot)/lib
export CARGO_NET_OFFLINE=true
V=$(dirname "$(realpath "$0")")
DRV=$V/atsa/target/release/atsa-driver
[ -x "$DRV" ] || DRV=/verif/atsa/target/release/atsa-driver
TD=${ATSA_TARGET_DIR:-$V/.cache/target-$PROFILE}
[ -d "$TD" ] || [ "$V" = /verif ] || { [ -d /verif/.cache/target-$PROFILE ] && TD=/verif/.cache/target-$PROFILE; }
mkdir -p $TD
# one extraction at a time per target directory (snapshots of /verif may share it)
exec 9>$TD/.extract.lock
flock 9
NONCE=$(date +%s%N)-$$
rm -rf $TD/debug/.fingerprint/ats-smart-contract-* $TD/release/.fingerprint/ats-smart-contract-* 2>/dev/null || true
rm -f $OUT
EXTRA=""
[ "$PROFILE" = release ] && EXTRA="--release"
cd $REPO
RUSTFLAGS="-Zmir-opt-level=0 -Awarnings" RUSTC_WRAPPER=$DRV \
  ATSA_OUT=$OUT ATSA_NONCE=$NONCE CARGO_TARGET_DIR=$TD \
  cargo +nightly check --offline --lib $EXTRA >$OUT.log 2>&1 || { cat $OUT.log | tail -40; echo "EXTRACT-FAILED"; exit 3; }
rm -f $OUT.log
test -s $OUT || { echo "EXTRACT-FAILED: no fact file"; exit 3; }
grep -q "\"nonce\":\"$NONCE\"" <(head -c 200 $OUT) || { echo "EXTRACT-FAILED: stale fact file"; exit 3; }
